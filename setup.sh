#!/bin/bash
# Offline setup: verify tools, parse every TLA+ module.
set -e
cd "$(dirname "$0")"
java -version 2>&1 | head -1
/venv/bin/python -c "import numpy, netCDF4; print('numpy', numpy.__version__, 'netCDF4', netCDF4.__version__)"
mkdir -p evidence replay
fail=0
for m in spec/*.tla; do
  out=$(cd spec && java -cp /opt/veriftools/tla/tla2tools.jar:/opt/veriftools/tla/CommunityModules-deps.jar tla2sany.SANY "$(basename "$m")" 2>&1) || true
  if echo "$out" | grep -qE "\*\*\* Errors|Fatal errors|Could not"; then echo "SANY FAILED: $m"; echo "$out" | tail -15; fail=1; fi
done
[ $fail = 0 ] && echo "setup ok: $(ls spec/*.tla | wc -l) TLA+ modules parse"
exit $fail
