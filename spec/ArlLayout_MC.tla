------------------------------ MODULE ArlLayout_MC ------------------------------
(* Small ARL packed-bit file configurations: every record has the record       *)
(* length, the reader's header window fits, each data field packs without      *)
(* wrap-around within one step; each configuration is emitted once.            *)
EXTENDS ArlLayout, Json, IOUtils
L(txt, v) == [txt |-> txt, v |-> v]
Quick == IOEnv.PNC_SCALE = "quick"
\* surface variables, and per level above the surface its variables: the same on
\* every level, or different ones (a variable may appear on some levels only)
Uniform(lay, n) == [l \in 1..n |-> lay]
Shapes ==
  { [sfc |-> <<"PRSS">>, levv |-> lv] : lv \in { Uniform(<<"TEMP">>, 1), Uniform(<<"TEMP", "UWND">>, 3),
        << <<"TEMP", "UWND">>, <<"TEMP", "RELH">>, <<"TEMP">> >>,
        << <<"HGTS", "TEMP">>, <<"HGTS", "RELH">>, <<"UWND">> >> } }
  \cup { [sfc |-> <<"PRSS", "T02M">>, levv |-> Uniform(<<"TEMP", "UWND">>, 1)],
          [sfc |-> <<"SHGT">>, levv |-> Uniform(<<"UWND", "VWND">>, 1)] }
LevelsFor(n) == IF n = 1 THEN << L("1.0000", 10000), L("0.9800", 9800) >>
                ELSE << L("0.0000", 0), L("1000.0", 10000000), L("925.00", 9250000), L("50.000", 500000) >>
Configs ==
  { [nx |-> g[1], ny |-> g[2], sfc |-> sh.sfc, levv |-> sh.levv, levels |-> LevelsFor(Len(sh.levv)), nt |-> nt,
     \* (forecast files: the label holds the VALID time, the forecast hour FF says how
     \* far into the forecast it lies and does not move it)
     start |-> st, dth |-> dth, ff |-> (IF dth = 12 THEN 6 ELSE 0), base |-> <<300, 1000, 20, 515, 760, 130>>] :
      g \in (IF Quick THEN { <<20, 15>> } ELSE { <<20, 15>>, <<17, 19>> }),
      sh \in Shapes, nt \in (IF Quick THEN {1, 3} ELSE 1..3), dth \in {3, 12},
      st \in (IF Quick THEN { <<11, 7, 1, 0>>, <<99, 12, 31, 18>> } ELSE { <<11, 7, 1, 0>>, <<99, 12, 31, 18>>, <<12, 2, 28, 21>> }) }
\* grids with 1000 or more cells in exactly one direction (the grid id of the
\* labels then holds letters and the index record the remainders)
BigGrids ==
  { [nx |-> g[1], ny |-> g[2], sfc |-> <<"PRSS">>, levv |-> Uniform(<<"TEMP">>, 1), levels |-> LevelsFor(1), nt |-> 1,
     start |-> <<11, 7, 1, 0>>, dth |-> 3, ff |-> 0, base |-> <<300, 1000, 20, 515, 760, 130>>] :
      g \in (IF Quick THEN { <<1001, 3>> } ELSE { <<1001, 3>>, <<3, 1003>>, <<2100, 3>> }) }   \* the reader builds cell bounds from the first three rows and columns
\* c: configuration; z: its file (records) and the packing of every field, computed once
VARIABLES c, z
LevList(cc, name) == IF IsSfc(cc, name) THEN <<0>> ELSE LevelsOf(cc, name)
PackAll(cc) == [s \in 1..NVars(cc) |-> [t \in 1..cc.nt |->
                 LET name == AllNames(cc)[s] IN
                 [q \in 1..Len(LevList(cc, name)) |-> Packed(cc, name, t, LevList(cc, name)[q])]]]
Init == c \in {x \in (IF IOEnv.PNC_ARL_FAMILY = "big" THEN BigGrids ELSE Configs) : ReaderWindowFits(x)} /\ z = [file |-> ArlFile(c), packs |-> PackAll(c)]
Next == UNCHANGED <<c, z>>
Spec == Init /\ [][Next]_<<c, z>>
InvSized == \A r \in 1..Len(z.file) : RecBytesA(z.file[r]) = RecLen(c)
InvCount == Len(z.file) = c.nt * RecordsPerTime(c)
InvPacking == \A s \in 1..NVars(c) : \A t \in 1..c.nt : \A l \in 1..Len(z.packs[s][t]) :
                  LET name == AllNames(c)[s] f == Field(c, name, t, LevList(c, name)[l]) p == z.packs[s][t][l] IN
                  NoWrap(p) /\ FirstExact(f, p) /\ WithinOneStep(f, p) /\ p.nexp >= 7
\* the level texts of the configurations' kind follow the text rule
InvLevelText ==
  /\ LevelChars(100000) = <<"1",".","0","0","0","0">> /\ LevelChars(98000) = <<".","9","8","0","0","0">>
  /\ LevelChars(0) = <<".","0","0","0","0","0">> /\ LevelChars(100000000) = <<"1","0","0","0",".","0">>
  /\ LevelChars(92500000) = <<"9","2","5",".","0","0">> /\ LevelChars(5000000) = <<"5","0",".","0","0","0">>
  /\ LevelChars(99875) = <<".","9","9","8","7","5">>
EmitConstraint == IF IOEnv.PNC_EMIT = "1"
  THEN PrintT(ToJson([cfg |-> c, recs |-> z.file, reclen |-> RecLen(c),
                      fields |-> [s \in 1..NVars(c) |-> [t \in 1..c.nt |-> [l \in 1..Len(z.packs[s][t]) |->
                            LET p == z.packs[s][t][l] IN [recon |-> p.recon, step |-> p.step, nexp |-> p.nexp]]]]]))
  ELSE TRUE
=================================================================================
