------------------------------ MODULE RecordFile_MC ------------------------------
EXTENDS RecordFile, Json, IOUtils
Quick == IOEnv.PNC_SCALE = "quick"
LenSet == IF Quick THEN {4, 12} ELSE {4, 8, 12}
MCLens == UNION {[1..n -> LenSet] : n \in 1..(IF Quick THEN 3 ELSE 4)}
MCDev == IOEnv.PNC_DEV
MCMax == atoi(IOEnv.PNC_MAXOPS)
EmitConstraint == IF IOEnv.PNC_EMIT = "1" /\ Len(ops) = MCMax
                  THEN PrintT(ToJson([lens |-> lens, ops |-> ops])) ELSE TRUE
=================================================================================
