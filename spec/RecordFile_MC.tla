------------------------------ MODULE RecordFile_MC ------------------------------
EXTENDS RecordFile, Json, IOUtils
LenSet == {4, 8, 12}
MCLens == UNION {[1..n -> LenSet] : n \in 1..3}
MCMax == atoi(IOEnv.PNC_MAXOPS)
EmitConstraint == IF IOEnv.PNC_EMIT = "1" /\ Len(ops) = MCMax
                  THEN PrintT(ToJson([lens |-> lens, ops |-> ops])) ELSE TRUE
=================================================================================
