------------------------------ MODULE PncCore_MC ------------------------------
(* Bounded model of the PncCore machine: a heap that starts with one small    *)
(* template file and grows by one file per operation, with arguments drawn    *)
(* from finite universes.  TLC checks on every reachable state                *)
(*   - C01: every file produced by the specified operations is well-formed    *)
(*          and keeps the unlimited flags (the value-level definitions of     *)
(*          C02-C04/C06 and C01 are jointly satisfiable),                      *)
(*   - the algebraic laws the properties state: full slices are the identity, *)
(*     Stack(Split(f)) = f and Slice(Stack) = piece (C04), commuting reducers *)
(*     are order independent (C03), a single list selects orthogonally (C02), *)
(* and emits every program of the bounded depth as a JSON line that the       *)
(* harness replays on the real library (spec -> code).                        *)
EXTENDS PncCore, Json, IOUtils

Depth == atoi(IOEnv.PNC_DEPTH)
LawDepth == atoi(IOEnv.PNC_LAWDEPTH)
DoEmit == IOEnv.PNC_EMIT = "1"
Tmpl == IOEnv.PNC_TEMPLATE

NoAttrs == <<>>
MkVar(name, dims, shape, dt, masked, ints, mk) ==
  [name |-> name, dims |-> dims, shape |-> shape, dt |-> dt, masked |-> masked,
   enc |-> "num", vals |-> [k \in 1..Len(ints) |-> RInt(ints[k])],
   mask |-> [k \in 1..Len(mk) |-> mk[k] = 1], attrs |-> NoAttrs]
Zeros(n) == [k \in 1..n |-> 0]
Iota(n, b) == [k \in 1..n |-> b + k - 1]

M1 == [dims |-> << [n |-> "t", len |-> 2, u |-> TRUE], [n |-> "y", len |-> 2, u |-> FALSE],
                   [n |-> "x", len |-> 2, u |-> FALSE] >>,
       vars |-> << MkVar("A", <<"t", "y", "x">>, <<2, 2, 2>>, "f", FALSE, Iota(8, 100), Zeros(8)),
                   MkVar("B", <<"y", "x">>, <<2, 2>>, "i", FALSE, Iota(4, 200), Zeros(4)),
                   MkVar("x", <<"x">>, <<2>>, "d", FALSE, <<10, 20>>, Zeros(2)),
                   MkVar("M", <<"t", "x">>, <<2, 2>>, "f", TRUE, <<110, 0, 112, 113>>, <<0, 1, 0, 0>>) >>,
       attrs |-> NoAttrs, coords |-> <<"x">>, cls |-> "PseudoNetCDFFile"]

M2 == [dims |-> << [n |-> "y", len |-> 3, u |-> FALSE], [n |-> "t", len |-> 2, u |-> TRUE],
                   [n |-> "z", len |-> 1, u |-> FALSE] >>,
       vars |-> << MkVar("P", <<"y", "t", "z">>, <<3, 2, 1>>, "d", FALSE, Iota(6, 300), Zeros(6)),
                   MkVar("Q", <<"t">>, <<2>>, "f", FALSE, <<7, 9>>, Zeros(2)),
                   MkVar("N", <<"y", "t">>, <<3, 2>>, "i", TRUE, <<150, 151, 0, 153, 154, 155>>, <<0, 0, 1, 0, 0, 0>>),
                   MkVar("E", <<"z">>, <<1>>, "d", FALSE, <<5>>, <<0>>) >>,
       attrs |-> NoAttrs, coords |-> <<>>, cls |-> "PseudoNetCDFFile"]

Template == IF Tmpl = "M2" THEN M2 ELSE M1

VARIABLES heap, prog
vars == <<heap, prog>>

\* ---------------------------------------------------------- argument universes
SInt(i) == [k |-> "int", v |-> i]
SSl(h, v) == [k |-> "slice", h |-> h, v |-> v]
SLst(v) == [k |-> "list", v |-> v]
T == TRUE
F == FALSE
SelUniverse(n) ==
  { SInt(0), SInt(-1), SSl(<<T, F, F>>, <<1, 0, 0>>), SSl(<<F, F, T>>, <<0, 0, -1>>),
    SSl(<<T, T, F>>, <<0, 0, 0>>), SSl(<<F, T, T>>, <<0, 5, 2>>),
    SLst(<<n - 1, 0>>), SLst(<<0, 0, -1>>) }

SliceArgs(f) ==
  { [sels |-> << [d |-> d, s |-> s] >>, newdim |-> "POINTS"] :
       d \in SeqSet(DimNames(f)), s \in SelUniverse(2) }
  \cup
  \* two dimensions: integer or slice with a list (either keyword order), and zipped lists
  { [sels |-> << [d |-> d1, s |-> s1], [d |-> d2, s |-> s2] >>, newdim |-> "POINTS"] :
       d1 \in SeqSet(DimNames(f)), d2 \in SeqSet(DimNames(f)),
       s1 \in {SInt(-1), SLst(<<1, 0>>), SSl(<<F, F, T>>, <<0, 0, -1>>)},
       s2 \in {SLst(<<0, 1>>), SLst(<<0, 0>>)} }

Fn(d, f, kind) == [d |-> d, f |-> f, kind |-> kind]
ApplyArgs(f) ==
  { [funcs |-> << Fn(d, r, "reducer") >>] : d \in SeqSet(DimNames(f)), r \in {"sum", "mean", "max", "var"} }
  \cup { [funcs |-> << Fn(d, c, "callable") >>] : d \in SeqSet(DimNames(f)), c \in {"diff", "rev", "conv11f"} }
  \cup { [funcs |-> << Fn(d1, r1, "reducer"), Fn(d2, r2, "reducer") >>] :
           d1 \in SeqSet(DimNames(f)), d2 \in SeqSet(DimNames(f)),
           r1 \in {"sum", "mean"}, r2 \in {"sum", "max"} }

Ops(hp) ==
  LET objs == 1..Len(hp) IN
  UNION { LET f == hp[o] IN
    { [act |-> "slice", src |-> o, others |-> <<>>, args |-> a] : a \in SliceArgs(f) }
    \cup { [act |-> "apply", src |-> o, others |-> <<>>, args |-> a] : a \in ApplyArgs(f) }
    \cup { [act |-> "stack", src |-> o, others |-> <<p>>, args |-> [dim |-> d, aslist |-> FALSE]] :
             p \in objs, d \in SeqSet(DimNames(f)) }
    \cup { [act |-> "stack", src |-> o, others |-> <<p, o>>, args |-> [dim |-> d, aslist |-> TRUE]] :
             p \in objs, d \in SeqSet(DimNames(f)) }
    \cup { [act |-> "subset", src |-> o, others |-> <<>>, args |-> [keys |-> <<k>>, exclude |-> x]] :
             k \in SeqSet(VarNames(f)), x \in BOOLEAN }
    \cup { [act |-> "renamevar", src |-> o, others |-> <<>>, args |-> [old |-> k, new |-> "V9"]] :
             k \in SeqSet(VarNames(f)) }
    \cup { [act |-> "renamedim", src |-> o, others |-> <<>>, args |-> [old |-> d, new |-> "d9"]] :
             d \in SeqSet(DimNames(f)) }
    \cup { [act |-> "rmsingle", src |-> o, others |-> <<>>, args |-> [h |-> FALSE, d |-> "t"]] }
    \cup { [act |-> "insertdim", src |-> o, others |-> <<>>,
            args |-> [d |-> "w", len |-> n, newonly |-> TRUE, multionly |-> m, pos |-> p, ref |-> r]] :
             n \in {1, 2}, m \in BOOLEAN, p \in {"none", "before", "after"}, r \in {"t"} }
    \cup { [act |-> "mask", src |-> o, others |-> <<>>,
            args |-> [p |-> << [k |-> pk, v |-> c] >>, where |-> [h |-> FALSE, shape |-> <<>>, bits |-> <<>>],
                      usedims |-> [h |-> FALSE, v |-> <<>>], coords |-> cc]] :
             pk \in {"greater", "less_equal", "equal"}, c \in {102, 201, 15}, cc \in BOOLEAN }
    \cup { [act |-> "arith", src |-> o, others |-> <<p>>, args |-> [op |-> op]] :
             p \in objs, op \in {"+", "-", "*", "/", "//", "<", "=="} }
    \cup { [act |-> "copy", src |-> o, others |-> <<>>, args |-> [x |-> 0]] }
    : o \in objs }

Dom(op, hp) ==
  LET f == hp[op.src] a == op.args fs == [i \in 1..(1 + Len(op.others)) |-> IF i = 1 THEN hp[op.src] ELSE hp[op.others[i - 1]]] IN
  CASE op.act = "copy" -> TRUE
    [] op.act = "slice" -> Dom_slice(f, a)
    [] op.act = "apply" -> Dom_apply(f, a) /\ Dec_apply(f, a)
    [] op.act = "stack" -> Dom_stack(fs, a)
    [] op.act = "subset" -> Dom_subset(f, a)
    [] op.act = "renamevar" -> Dom_renamevar(f, a)
    [] op.act = "renamedim" -> Dom_renamedim(f, a)
    [] op.act = "rmsingle" -> TRUE
    [] op.act = "insertdim" -> Dom_insertdim(f, a)
    [] op.act = "mask" -> Dom_mask(f, a)
    [] op.act = "arith" -> Dom_arith(fs, a) /\ Dec_arith(fs, a)

\* a concrete file for results that admit several evaluation orders (the
\* library's order: last axis first) ; results with unconstrained cells are not
\* used as sources in the model
PlainVar(v, arr) == [name |-> v.name, dims |-> v.dims, shape |-> arr.shape, dt |-> v.dt, masked |-> v.masked,
                     enc |-> v.enc, vals |-> arr.vals, mask |-> arr.mask, attrs |-> v.attrs]
Concrete(e) ==
  [e EXCEPT !.vars = [i \in 1..Len(e.vars) |->
     LET v == e.vars[i] IN
     IF "alts" \in DOMAIN v THEN PlainVar(v, CHOOSE a \in v.alts : TRUE)
     ELSE PlainVar(v, ArrOf(v))]]
HasFree(e) == \E i \in 1..Len(e.vars) : "free" \in DOMAIN e.vars[i]

Exp(op, hp) ==
  LET f == hp[op.src] a == op.args fs == [i \in 1..(1 + Len(op.others)) |-> IF i = 1 THEN hp[op.src] ELSE hp[op.others[i - 1]]] IN
  CASE op.act = "copy" -> f
    [] op.act = "slice" -> Exp_slice(f, a)
    [] op.act = "apply" -> Exp_apply(f, a)
    [] op.act = "stack" -> Exp_stack(fs, a)
    [] op.act = "subset" -> Exp_subset(f, a)
    [] op.act = "renamevar" -> Exp_renamevar(f, a)
    [] op.act = "renamedim" -> Exp_renamedim(f, a)
    [] op.act = "rmsingle" -> Exp_rmsingle(f, a)
    [] op.act = "insertdim" -> Exp_insertdim(f, a)
    [] op.act = "mask" -> Exp_mask(f, a)
    [] op.act = "arith" -> Exp_arith(fs, a)

Init == heap = <<Template>> /\ prog = <<>>

Step(op) ==
  /\ Dom(op, heap)
  /\ ~HasFree(Exp(op, heap))
  /\ heap' = Append(heap, Concrete(Exp(op, heap)))
  /\ prog' = Append(prog, op)

Next == Len(prog) < Depth /\ \E op \in Ops(heap) : Step(op)
Spec == Init /\ [][Next]_vars

EmitConstraint ==
  IF DoEmit /\ Len(prog) = Depth THEN PrintT(ToJson([template |-> Tmpl, steps |-> prog])) ELSE TRUE

\* -------------------------------------------------------------- invariants
\* (laws are evaluated on the newest object: older ones were checked in the
\* predecessor states)
Inv_WellFormed == \A o \in 1..Len(heap) : WellFormed(heap[o])

\* the latest file keeps the unlimited flag of every dimension it shares with its source
UnlimitedKeptProp ==
  [][Len(heap') = Len(heap) + 1 => UnlimitedKept(heap[prog'[Len(prog')].src], heap'[Len(heap')])]_vars

FullSel(f) == [sels |-> [i \in 1..Len(f.dims) |-> [d |-> f.dims[i].n, s |-> FullSlice]], newdim |-> "POINTS"]
Cut(f, d, lo, hi) == Exp_slice(f, [sels |-> << [d |-> d, s |-> SSl(<<T, T, F>>, <<lo, hi, 0>>)] >>, newdim |-> "POINTS"])
SplittableDims(f) ==
  {d \in SeqSet(DimNames(f)) : DimLen(f, d) >= 2 /\ \A i \in 1..Len(f.vars) : NoDup(f.vars[i].dims)
                               /\ (HasVar(f, d) => VarRec(f, d).dims = <<d>>)}

Law_IdentitySlice == Len(prog) <= LawDepth => \A o \in {Len(heap)} :
  (\A i \in 1..Len(heap[o].vars) : NoDup(heap[o].vars[i].dims)) =>
     FileDiff(Exp_slice(heap[o], FullSel(heap[o])), heap[o], "full") = ""

\* C04: stacking the consecutive pieces of any split reproduces the file, and
\* slicing the stacked file at a piece's extent reproduces the piece
Law_StackSplit == Len(prog) <= LawDepth => \A o \in {Len(heap)} : LET f == heap[o] IN
  \A d \in SplittableDims(f) : \A c \in 1..(DimLen(f, d) - 1) :
     LET lo == Cut(f, d, 0, c) hi == Cut(f, d, c, DimLen(f, d))
         st == Exp_stack(<<lo, hi>>, [dim |-> d])
     IN /\ FileDiff(st, f, "full") = ""
        /\ FileDiff(Cut(st, d, 0, c), lo, "full") = ""
        /\ FileDiff(Cut(st, d, c, DimLen(f, d)), hi, "full") = ""

\* C03: commuting reducers do not depend on the order of the dimensions
Law_CommutingReducers == Len(prog) <= LawDepth => \A o \in {Len(heap)} : LET f == heap[o] IN
  \A i1, i2 \in 1..Len(f.dims) : \A r \in {"sum", "max"} :
     LET d1 == f.dims[i1].n d2 == f.dims[i2].n
         a == [funcs |-> << Fn(d1, r, "reducer"), Fn(d2, r, "reducer") >>] IN
     (i1 < i2 /\ Dom_apply(f, a) /\ Dec_apply(f, a)) =>
        \A i \in 1..Len(f.vars) :
           LET e == ApplyVar(a, f.vars[i]) IN "alts" \in DOMAIN e => Cardinality(e.alts) = 1

\* C02: a single index list is an orthogonal selection (zip and ortho agree)
Law_SingleListOrtho == Len(prog) <= LawDepth => \A o \in {Len(heap)} : LET f == heap[o] IN
  \A i \in 1..Len(f.vars) : LET v == f.vars[i] IN
    (Len(v.dims) >= 1 /\ v.shape[1] >= 2) =>
      LET sels == [ax \in 1..Len(v.dims) |-> IF ax = 1 THEN SLst(<<1, 0, 1>>) ELSE FullSlice]
      IN Zip(ArrOf(v), sels, {1}).arr = Ortho(ArrOf(v), sels)
=================================================================================
