SPECIFICATION Spec
CONSTANTS
  Files <- EnvFiles
  Reg0 <- EnvReg0
  ClassOf <- EnvClassOf
  Accept <- EnvAccept
  Ext <- EnvExt
  Aliasing <- EnvAliasing
  MaxHist <- EnvMaxHist
INVARIANT HistoryFree
PROPERTY RegistryStable
CONSTRAINT EmitConstraint
CHECK_DEADLOCK FALSE
