SPECIFICATION Spec
INVARIANT InvDeclared
INVARIANT InvReader
CONSTRAINT EmitConstraint
CHECK_DEADLOCK FALSE
