--------------------------------- MODULE ArlPack ---------------------------------
(* C20: the one-byte differential ARL packing, in exact integer arithmetic.   *)
(* A field is a sequence of rows of integers (arbitrary units).  The packing  *)
(* exponent NEXP comes from the largest difference between neighbours (along  *)
(* rows; the first column runs down the rows from element (1,1)); with        *)
(* NEXP >= 7 one quantisation step is S = 2^(NEXP-7) units.  Bytes are        *)
(* trunc(diff / S + 127.5) relative to the running reconstruction.            *)
EXTENDS Integers, Sequences, FiniteSets, TLC

AbsA(a) == IF a < 0 THEN -a ELSE a
MaxA(a, b) == IF a > b THEN a ELSE b
RECURSIVE Pow2(_)
Pow2(k) == IF k <= 0 THEN 1 ELSE 2 * Pow2(k - 1)
NY(f) == Len(f)
NX(f) == Len(f[1])

\* largest neighbour difference (rows; first column down the rows from f[1][1])
RMax(f) ==
  LET rowd == {AbsA(f[j][i + 1] - f[j][i]) : j \in 1..NY(f), i \in 1..(NX(f) - 1)}
      cold == {AbsA(f[j][1] - (IF j = 1 THEN f[1][1] ELSE f[j - 1][1])) : j \in 1..NY(f)}
      all == rowd \cup cold
  IN CHOOSE m \in all : \A x \in all : x <= m
\* NEXP = floor(log2 RMAX) + 1 for RMAX >= 1 ; RMAX = 0 gives 1
NExp(r) == IF r = 0 THEN 1 ELSE CHOOSE e \in 1..31 : Pow2(e - 1) <= r /\ r < Pow2(e)
Step(f) == Pow2(NExp(RMax(f)) - 7)          \* units per quantisation step (NEXP >= 7)

\* INT(d / S + 127.5) with truncation toward zero
Trunc(n, d) == IF n >= 0 THEN n \div d ELSE -((-n) \div d)
\* ... saturating at the ends of the byte range (a byte must never wrap around)
IcRaw(d, S) == Trunc(2 * d + 255 * S, 2 * S)
IcVal(d, S) == IF IcRaw(d, S) < 0 THEN 0 ELSE IF IcRaw(d, S) > 255 THEN 255 ELSE IcRaw(d, S)

\* packing of one lane (a row, or the first column): returns bytes and reconstruction
RECURSIVE PackLane(_, _, _, _, _)
PackLane(xs, k, rold, S, acc) ==
  IF k > Len(xs) THEN acc
  ELSE LET ic == IcVal(xs[k] - rold, S)
           rn == (ic - 127) * S + rold
       IN PackLane(xs, k + 1, rn, S, [b |-> Append(acc.b, ic), r |-> Append(acc.r, rn)])

Pack(f) ==
  LET S == Step(f)
      col == PackLane([j \in 1..NY(f) |-> f[j][1]], 1, f[1][1], S, [b |-> <<>>, r |-> <<>>])
      rows == [j \in 1..NY(f) |->
                 PackLane([i \in 1..(NX(f) - 1) |-> f[j][i + 1]], 1, col.r[j], S, [b |-> <<>>, r |-> <<>>])]
  IN [nexp |-> NExp(RMax(f)), step |-> S, var1 |-> f[1][1],
      bytes |-> [j \in 1..NY(f) |-> <<col.b[j]>> \o rows[j].b],
      recon |-> [j \in 1..NY(f) |-> <<col.r[j]>> \o rows[j].r]]

\* the same packing for a given exponent nexp >= 6, on doubled values (so that a
\* step of one half unit, nexp = 6, is still an integer): f2 = 2 * field
PackWith(f2, nexp) ==
  LET S == Pow2(nexp - 6)           \* half-units per quantisation step
      col == PackLane([j \in 1..NY(f2) |-> f2[j][1]], 1, f2[1][1], S, [b |-> <<>>, r |-> <<>>])
      rows == [j \in 1..NY(f2) |->
                 PackLane([i \in 1..(NX(f2) - 1) |-> f2[j][i + 1]], 1, col.r[j], S, [b |-> <<>>, r |-> <<>>])]
  IN [nexp |-> nexp, step |-> S, var1 |-> f2[1][1],
      bytes |-> [j \in 1..NY(f2) |-> <<col.b[j]>> \o rows[j].b],
      recon |-> [j \in 1..NY(f2) |-> <<col.r[j]>> \o rows[j].r]]
Doubled(f) == [j \in 1..NY(f) |-> [i \in 1..NX(f) |-> 2 * f[j][i]]]
\* the exponents a float32 implementation may record for RMAX = r: the exact one,
\* or one less when r is an exact power of two (LOG(r)/LOG(2) rounds just below
\* the integer)
ExpAdmissible(r, e) == e = NExp(r) \/ (r = Pow2(NExp(r) - 1) /\ e = NExp(r) - 1)

RECURSIVE SumSeqA(_)
SumSeqA(s) == IF Len(s) = 0 THEN 0 ELSE Head(s) + SumSeqA(Tail(s))
ByteSum(p) == SumSeqA([j \in 1..Len(p.bytes) |-> SumSeqA(p.bytes[j])])

\* ---------------------------------------------------------------- properties
NoWrap(p) == \A j \in 1..Len(p.bytes) : \A i \in 1..Len(p.bytes[j]) : p.bytes[j][i] \in 0..255
FirstExact(f, p) == p.recon[1][1] = f[1][1] /\ p.var1 = f[1][1]
WithinOneStep(f, p) == \A j \in 1..NY(f) : \A i \in 1..NX(f) : AbsA(p.recon[j][i] - f[j][i]) <= p.step
\* the elements where the bound fails (the difference to the running
\* reconstruction lies below -127.5 steps and is cut off at byte 0)
Offenders(f, p) == {<<j, i>> \in (1..NY(f)) \X (1..NX(f)) : AbsA(p.recon[j][i] - f[j][i]) > p.step}
=================================================================================
