----------------------------- MODULE Pipeline_Trace -----------------------------
(* Trace validation of the command line pipeline: a template file, a command    *)
(* line (options in the order given, each in the argument form of its PncCore   *)
(* operation) and the projection of the file pnc(...) returned.                 *)
EXTENDS Pipeline, TraceLib

NVar(j) ==
  [name |-> j.name, dims |-> j.dims, shape |-> j.shape, dt |-> j.dt,
   masked |-> j.masked,
   enc |-> IF j.enc \in {"int", "rat"} THEN "num" ELSE j.enc,
   vals |-> IF j.enc = "int" THEN [k \in 1..Len(j.cells) |-> RInt(j.cells[k])]
            ELSE IF j.enc = "rat" THEN [k \in 1..Len(j.cells) |-> [n |-> j.cells[k], d |-> j.den[k]]]
            ELSE j.cells,
   mask |-> [k \in 1..Len(j.mask) |-> j.mask[k] = 1],
   attrs |-> j.attrs]
NFile(j) == [dims |-> j.dims, vars |-> [i \in 1..Len(j.vars) |-> NVar(j.vars[i])],
             attrs |-> j.attrs, coords |-> j.coords, cls |-> j.cls]

EnfWF == IOEnv.PNC_E_WF = "1"
EnfVAL == IOEnv.PNC_E_VAL = "1"

VARIABLES tid, l
tvars == <<tid, l>>
TInit == tid \in 1..NTraces /\ l = 0
ChkS(tr, ll, what, diag) ==
  IF diag = "" THEN TRUE
  ELSE Say([v |-> "MISMATCH", tid |-> tr.tid, l |-> ll, what |-> what, diag |-> diag]) /\ FALSE

TStep ==
  LET tr == Traces[tid]
      f == NFile(tr.init)
      r == Result(f, tr.opts)
  IN /\ l = 0 /\ l' = 1 /\ tid' = tid
     /\ ChkS(tr, 0, "template is not well-formed", WFDiag(f))
     \* C01: a command line whose options are all in their documented domain completes ...
     /\ ((EnfWF /\ r.ok) => ChkT(tr, 1, "pipeline with in-domain options raised: " \o tr.exc, tr.res = "ok"))
     \* ... and whatever it returns is well-formed
     /\ ((EnfWF /\ tr.res = "ok") => ChkS(tr, 1, "C01 pipeline: result not well-formed", WFDiag(NFile(tr.got))))
     \* the options are applied kind by kind (masks, slices, reductions, convolutions,
     \* expressions), whatever their order on the command line
     /\ ((EnfVAL /\ r.ok /\ tr.res = "ok") =>
           ChkS(tr, 1, "pipeline result differs from the options applied in the order of kinds", FileDiff(NFile(tr.got), r.f, "val")))
     /\ TrAccept(tr)
TSpec == TInit /\ [][TStep]_tvars
=================================================================================
