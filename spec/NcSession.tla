-------------------------------- MODULE NcSession --------------------------------
(* C07, histories: one process saves several files one after the other.  What   *)
(* is stored for a file must depend on that file only - the writer carries      *)
(* nothing over from one save to the next.  A file is abstracted to what a      *)
(* writer could carry over and the property speaks of: the set u of its         *)
(* unlimited dimension names.  (Options of the call such as the compression     *)
(* level do not change what "reproduces the file" means and are left out.)      *)
(*   hist : the saves so far;  mem : what the writer remembers;                 *)
(*   last : the unlimited dimensions as actually stored by the last save.       *)
(* StickyUnlimited is the deviation: a writer whose list of record dimensions   *)
(* is shared between its instances.                                             *)
EXTENDS Sequences, FiniteSets, Naturals
CONSTANTS DimNamesU, StickyUnlimited, MaxSaves
VARIABLES hist, mem, last
svars == <<hist, mem, last>>
Files == SUBSET DimNamesU
SInit == hist = <<>> /\ mem = {} /\ last = {}
Save(u) ==
  /\ Len(hist) < MaxSaves
  /\ hist' = Append(hist, u)
  /\ last' = IF StickyUnlimited THEN u \cup mem ELSE u
  /\ mem' = IF StickyUnlimited THEN mem \cup u ELSE {}
SNext == \E u \in Files : Save(u)
SSpec == SInit /\ [][SNext]_svars
\* the property: what is stored is what the file says
HistoryFree == hist = <<>> \/ last = hist[Len(hist)]
=================================================================================
