------------------------------- MODULE PncValues -------------------------------
(* Arrays, selectors, reducers and elementwise operators of the PseudoNetCDF  *)
(* abstract machine, written from language-level definitions (Python slice    *)
(* rule, orthogonal indexing, masked-array reductions) - never from the       *)
(* library.  Arrays are row-major; numeric cells are exact rationals.         *)
EXTENDS Integers, Sequences, FiniteSets, TLC

MinI(a, b) == IF a < b THEN a ELSE b
MaxI(a, b) == IF a > b THEN a ELSE b
AbsI(a) == IF a < 0 THEN -a ELSE a

RECURSIVE ProdSeq(_)
ProdSeq(s) == IF Len(s) = 0 THEN 1 ELSE Head(s) * ProdSeq(Tail(s))
RECURSIVE SumSeq(_)
SumSeq(s) == IF Len(s) = 0 THEN 0 ELSE Head(s) + SumSeq(Tail(s))

SeqSet(s) == {s[i] : i \in 1..Len(s)}
IndexOf(s, x) == CHOOSE i \in 1..Len(s) : s[i] = x /\ \A j \in 1..(i-1) : s[j] # x
Has(s, x) == \E i \in 1..Len(s) : s[i] = x

\* ---------------------------------------------------------------- rationals
RECURSIVE Gcd(_, _)
Gcd(a, b) == IF b = 0 THEN a ELSE Gcd(b, a % b)

Rat(n, d) == \* d > 0
  IF n = 0 THEN [n |-> 0, d |-> 1]
  ELSE LET g == Gcd(AbsI(n), d) IN [n |-> n \div g, d |-> d \div g]
RInt(i) == [n |-> i, d |-> 1]
RAdd(a, b) == Rat(a.n * b.d + b.n * a.d, a.d * b.d)
RSub(a, b) == Rat(a.n * b.d - b.n * a.d, a.d * b.d)
RMul(a, b) == Rat(a.n * b.n, a.d * b.d)
RDiv(a, b) == IF b.n > 0 THEN Rat(a.n * b.d, a.d * b.n)
              ELSE Rat(-(a.n * b.d), a.d * (-b.n))          \* b.n # 0
RLt(a, b) == a.n * b.d < b.n * a.d
RLe(a, b) == a.n * b.d <= b.n * a.d
RFloor(a) == a.n \div a.d          \* TLA+ \div floors
RIsInt(a) == a.d = 1

RECURSIVE RSumSeq(_)
RSumSeq(s) == IF Len(s) = 0 THEN RInt(0) ELSE RAdd(Head(s), RSumSeq(Tail(s)))
RECURSIVE RProdSeq(_)
RProdSeq(s) == IF Len(s) = 0 THEN RInt(1) ELSE RMul(Head(s), RProdSeq(Tail(s)))
RECURSIVE RMinSeq(_)
RMinSeq(s) == IF Len(s) = 1 THEN s[1]
              ELSE LET m == RMinSeq(Tail(s)) IN IF RLt(m, s[1]) THEN m ELSE s[1]
RECURSIVE RMaxSeq(_)
RMaxSeq(s) == IF Len(s) = 1 THEN s[1]
              ELSE LET m == RMaxSeq(Tail(s)) IN IF RLt(s[1], m) THEN m ELSE s[1]

RECURSIVE RPow(_, _)
RPow(a, k) == IF k = 0 THEN RInt(1) ELSE RMul(a, RPow(a, k - 1))   \* k >= 0

\* ------------------------------------------------------------ index algebra
Stride(shape, ax) == ProdSeq(SubSeq(shape, ax + 1, Len(shape)))
Unravel(shape, k) == [ax \in 1..Len(shape) |-> (k \div Stride(shape, ax)) % shape[ax]]
Ravel(shape, idx) == SumSeq([ax \in 1..Len(shape) |-> idx[ax] * Stride(shape, ax)])

\* ----------------------------------------------------------------- selectors
\* sel.k = "int":   sel.v integer
\* sel.k = "slice": sel.h = <<hasStart, hasStop, hasStep>>, sel.v = values
\* sel.k = "list":  sel.v sequence of integers
FullSlice == [k |-> "slice", h |-> <<FALSE, FALSE, FALSE>>, v |-> <<0, 0, 0>>]

\* Python's slice.indices(n) followed by range(): the language rule
SliceSeq(n, s) ==
  LET step == IF s.h[3] THEN s.v[3] ELSE 1
      lo == IF step > 0 THEN 0 ELSE -1
      hi == IF step > 0 THEN n ELSE n - 1
      clampS(v) == IF v < 0 THEN MaxI(v + n, lo) ELSE MinI(v, hi)
      start == IF ~s.h[1] THEN (IF step > 0 THEN lo ELSE hi) ELSE clampS(s.v[1])
      stop  == IF ~s.h[2] THEN (IF step > 0 THEN hi ELSE lo) ELSE clampS(s.v[2])
      cnt == IF step > 0
             THEN (IF stop > start THEN (stop - start + step - 1) \div step ELSE 0)
             ELSE (IF stop < start THEN (start - stop - step - 1) \div (-step) ELSE 0)
  IN [i \in 1..cnt |-> start + (i - 1) * step]

NormIdx(n, i) == IF i < 0 THEN i + n ELSE i
InRange(n, i) == i >= -n /\ i < n

SelIdx(n, sel) ==
  CASE sel.k = "int"   -> << NormIdx(n, sel.v) >>
    [] sel.k = "slice" -> SliceSeq(n, sel)
    [] sel.k = "list"  -> [i \in 1..Len(sel.v) |-> NormIdx(n, sel.v[i])]
    \* a boolean index array (sel.v : 0 / 1 per element): the positions that are true
    [] sel.k = "bool"  -> SelectSeq([i \in 1..n |-> i - 1], LAMBDA i : sel.v[i + 1] = 1)

SelInDomain(n, sel) ==
  CASE sel.k = "int"   -> InRange(n, sel.v)
    [] sel.k = "slice" -> (~sel.h[3] \/ sel.v[3] # 0)
    [] sel.k = "list"  -> \A i \in 1..Len(sel.v) : InRange(n, sel.v[i])
    [] sel.k = "bool"  -> Len(sel.v) = n /\ \E i \in 1..n : sel.v[i] = 1

\* ------------------------------------------------------------------- arrays
\* an array value a has a.shape, a.vals (row-major cells), a.mask (booleans)
Size(a) == ProdSeq(a.shape)
Arr(shape, vals, mask) == [shape |-> shape, vals |-> vals, mask |-> mask]

\* orthogonal (per-axis, independent) selection; integers keep a length-1 axis
Ortho(a, sels) ==
  LET r == Len(a.shape)
      idxs == [ax \in 1..r |-> SelIdx(a.shape[ax], sels[ax])]
      nshape == [ax \in 1..r |-> Len(idxs[ax])]
      n == ProdSeq(nshape)
      src == [k \in 1..n |-> LET u == Unravel(nshape, k - 1)
                             IN 1 + Ravel(a.shape, [ax \in 1..r |-> idxs[ax][u[ax] + 1]])]
  IN Arr(nshape, [k \in 1..n |-> a.vals[src[k]]], [k \in 1..n |-> a.mask[src[k]]])

\* pointwise ("zipped") selection: axes in A carry equal-length lists; they are
\* replaced by one new axis placed where the first of them was
Zip(a, sels, A) ==
  LET r == Len(a.shape)
      first == CHOOSE x \in A : \A y \in A : x <= y
      L == Len(sels[first].v)
      keep == SelectSeq([ax \in 1..r |-> ax], LAMBDA ax : ax \notin A)
      c == Cardinality({ax \in SeqSet(keep) : ax < first}) + 1
      nr == Len(keep) + 1
      idxs == [ax \in 1..r |-> SelIdx(a.shape[ax], sels[ax])]
      \* new axis j -> old axis (0 for the point axis)
      old == [j \in 1..nr |-> IF j < c THEN keep[j] ELSE IF j = c THEN 0 ELSE keep[j - 1]]
      nshape == [j \in 1..nr |-> IF old[j] = 0 THEN L ELSE Len(idxs[old[j]])]
      newax == [ax \in 1..r |-> IF ax \in A THEN c ELSE CHOOSE j \in 1..nr : old[j] = ax]
      n == ProdSeq(nshape)
      src == [k \in 1..n |-> LET u == Unravel(nshape, k - 1)
                             IN 1 + Ravel(a.shape, [ax \in 1..r |-> idxs[ax][u[newax[ax]] + 1]])]
  IN [arr |-> Arr(nshape, [k \in 1..n |-> a.vals[src[k]]], [k \in 1..n |-> a.mask[src[k]]]),
      c |-> c, keep |-> keep]

\* lanes along axis ax: for each position of the other axes the sequence of
\* linear cell indices along ax
LaneShape(shape, ax, m) == [b \in 1..Len(shape) |-> IF b = ax THEN m ELSE shape[b]]
Lane(shape, ax, u) == [j \in 1..shape[ax] |->
                         1 + Ravel(shape, [b \in 1..Len(shape) |-> IF b = ax THEN j - 1 ELSE u[b]])]

\* apply a 1-D function along axis ax.  f1(vals, mask) returns [vals, mask]
\* sequences of the output length m (the same m for every lane)
AlongAxis(a, ax, m, F(_, _)) ==
  LET nshape == LaneShape(a.shape, ax, m)
      n == ProdSeq(nshape)
      one == LaneShape(a.shape, ax, 1)
      nl == ProdSeq(one)
      \* result of each lane, indexed by the lane's position with ax := 0
      res == [q \in 1..nl |-> LET u == Unravel(one, q - 1)
                                  ln == Lane(a.shape, ax, u)
                              IN F([j \in 1..Len(ln) |-> a.vals[ln[j]]],
                                   [j \in 1..Len(ln) |-> a.mask[ln[j]]])]
      lane(k) == LET u == Unravel(nshape, k - 1)
                 IN 1 + Ravel(one, [b \in 1..Len(one) |-> IF b = ax THEN 0 ELSE u[b]])
      pos(k) == Unravel(nshape, k - 1)[ax] + 1
  IN Arr(nshape, [k \in 1..n |-> res[lane(k)].vals[pos(k)]],
                 [k \in 1..n |-> res[lane(k)].mask[pos(k)]])

\* ------------------------------------------------------------------ reducers
Live(vals, mask) == LET idx == SelectSeq([j \in 1..Len(vals) |-> j], LAMBDA j : ~mask[j])
                    IN [j \in 1..Len(idx) |-> vals[idx[j]]]

\* the median of the unmasked values: the middle one of the sorted values, or the
\* mean of the two middle ones (only the string form reduce_dim offers it: it
\* resolves names that are no array methods in numpy.ma, then numpy)
RECURSIVE RInsert(_, _)
RInsert(x, s) == IF Len(s) = 0 THEN <<x>>
                 ELSE IF RLe(x, Head(s)) THEN <<x>> \o s ELSE <<Head(s)>> \o RInsert(x, Tail(s))
RECURSIVE RSort(_)
RSort(s) == IF Len(s) = 0 THEN <<>> ELSE RInsert(Head(s), RSort(Tail(s)))
RMedian(lv) == LET srt == RSort(lv) n == Len(lv) IN
               IF n % 2 = 1 THEN srt[(n + 1) \div 2]
               ELSE RDiv(RAdd(srt[n \div 2], srt[n \div 2 + 1]), RInt(2))
Reducers == {"sum", "min", "max", "mean", "var", "prod", "any", "all", "median"}
\* masked-array semantics: masked cells are excluded; an all-masked lane is masked
Reduce(r, vals, mask) ==
  LET lv == Live(vals, mask)
      n == Len(lv)
      sq == [j \in 1..n |-> RMul(lv[j], lv[j])]
  IN IF n = 0 THEN [vals |-> <<RInt(0)>>, mask |-> <<TRUE>>]
     ELSE [mask |-> <<FALSE>>,
           vals |-> << CASE r = "sum"  -> RSumSeq(lv)
                         [] r = "min"  -> RMinSeq(lv)
                         [] r = "max"  -> RMaxSeq(lv)
                         [] r = "prod" -> RProdSeq(lv)
                         [] r = "mean" -> RDiv(RSumSeq(lv), RInt(n))
                         [] r = "median" -> RMedian(lv)
                         [] r = "var"  -> RSub(RDiv(RSumSeq(sq), RInt(n)),
                                               RMul(RDiv(RSumSeq(lv), RInt(n)), RDiv(RSumSeq(lv), RInt(n))))
                         [] r = "any"  -> RInt(IF \E j \in 1..n : lv[j].n # 0 THEN 1 ELSE 0)
                         [] r = "all"  -> RInt(IF \A j \in 1..n : lv[j].n # 0 THEN 1 ELSE 0) >>]

\* --------------------------------------------- length-changing 1-D functions
\* evaluated on plain data (callables see the underlying data, no mask)
Fun1dLen(f, n) ==
  CASE f = "diff"    -> MaxI(n - 1, 0)
    [] f = "rev"     -> n
    [] f = "sub2"    -> (n + 1) \div 2
    [] f = "cumsum"  -> n
    [] f = "conv11v" -> IF n >= 2 THEN n - 1 ELSE 2      \* numpy valid: max(n,k)-min(n,k)+1
    [] f = "conv11f" -> n + 1
    [] f = "conv121s" -> MaxI(n, 3)
    [] f = "first"   -> 1
    \* callables that return a scalar (np.max, np.sum): the axis keeps length 1
    [] f = "npmax"   -> 1
    [] f = "npsum"   -> 1

ConvFull(x, w) == \* full discrete convolution
  LET n == Len(x) m == Len(w)
  IN [k \in 1..(n + m - 1) |->
        RSumSeq([j \in 1..m |-> IF k - j + 1 >= 1 /\ k - j + 1 <= n
                                 THEN RMul(w[j], x[k - j + 1]) ELSE RInt(0)])]

Fun1d(f, x) ==
  LET n == Len(x) IN
  CASE f = "diff"    -> [j \in 1..MaxI(n - 1, 0) |-> RSub(x[j + 1], x[j])]
    [] f = "rev"     -> [j \in 1..n |-> x[n + 1 - j]]
    [] f = "sub2"    -> [j \in 1..((n + 1) \div 2) |-> x[2 * j - 1]]
    [] f = "cumsum"  -> [j \in 1..n |-> RSumSeq(SubSeq(x, 1, j))]
    [] f = "conv11f" -> ConvFull(x, <<RInt(1), RInt(1)>>)
    [] f = "conv11v" -> LET full == ConvFull(x, <<RInt(1), RInt(1)>>)
                        IN IF n >= 2 THEN SubSeq(full, 2, n) ELSE full
    [] f = "conv121s" -> LET full == ConvFull(x, <<RInt(1), RInt(2), RInt(1)>>)
                             \* numpy 'same': centred, length max(n, 3)
                         IN IF n >= 3 THEN SubSeq(full, 2, n + 1) ELSE SubSeq(full, 1, 3)
    [] f = "first"   -> <<x[1]>>
    [] f = "npmax"   -> <<RMaxSeq(x)>>
    [] f = "npsum"   -> <<RSumSeq(x)>>

\* ------------------------------------------------------ elementwise operators
ArithOps == {"+", "-", "*", "/", "//", "%", "**", "<", "<=", ">", ">=", "==", "!="}
\* result of a op b on unmasked operands: [ok |-> finite?, v |-> value]
Bool(b) == RInt(IF b THEN 1 ELSE 0)
IntTypes == {"b", "B", "h", "H", "i", "I", "l", "L", "q", "Q"}
ArithCellF(op, a, b) ==
  CASE op = "+"  -> [ok |-> TRUE, v |-> RAdd(a, b)]
    [] op = "-"  -> [ok |-> TRUE, v |-> RSub(a, b)]
    [] op = "*"  -> [ok |-> TRUE, v |-> RMul(a, b)]
    [] op = "/"  -> IF b.n = 0 THEN [ok |-> FALSE, v |-> RInt(0)] ELSE [ok |-> TRUE, v |-> RDiv(a, b)]
    [] op = "//" -> IF b.n = 0 THEN [ok |-> FALSE, v |-> RInt(0)] ELSE [ok |-> TRUE, v |-> RInt(RFloor(RDiv(a, b)))]
    [] op = "%"  -> IF b.n = 0 THEN [ok |-> FALSE, v |-> RInt(0)]
                    ELSE [ok |-> TRUE, v |-> RSub(a, RMul(b, RInt(RFloor(RDiv(a, b)))))]
    [] op = "**" -> IF RIsInt(b) /\ b.n >= 0 /\ b.n <= 3 THEN [ok |-> TRUE, v |-> RPow(a, b.n)]
                    ELSE [ok |-> FALSE, v |-> RInt(0)]
    [] op = "<"  -> [ok |-> TRUE, v |-> Bool(RLt(a, b))]
    [] op = "<=" -> [ok |-> TRUE, v |-> Bool(RLe(a, b))]
    [] op = ">"  -> [ok |-> TRUE, v |-> Bool(RLt(b, a))]
    [] op = ">=" -> [ok |-> TRUE, v |-> Bool(RLe(b, a))]
    [] op = "==" -> [ok |-> TRUE, v |-> Bool(a = b)]
    [] op = "!=" -> [ok |-> TRUE, v |-> Bool(a # b)]
ArithCell(op, a, b) == ArithCellF(op, a, b)
\* integer arrays have no non-finite values: numpy defines x // 0 = x % 0 = 0
ArithCellT(op, a, b, dt) ==
  IF dt \in IntTypes /\ op \in {"//", "%"} /\ b.n = 0 THEN [ok |-> TRUE, v |-> RInt(0)]
  ELSE ArithCellF(op, a, b)
=================================================================================
