-------------------------------- MODULE PncInterp --------------------------------
(* interpDimension as an operation of the PncCore machine (C01: "interpolate";   *)
(* values: C17).  f.interpDimension(d, newvals, extrapolate = ex) with the 1-D    *)
(* coordinate variable named d: every variable that has dimension d is replaced  *)
(* along that axis by the weighted sums of Interp!Weights (the coordinate        *)
(* variable itself included); the dimension takes the number of new values; all  *)
(* other variables, dimensions and attributes are kept.  The weights act on the  *)
(* underlying data: a variable with masked cells is left open.                   *)
(*   a = [d |-> name, nxs |-> Seq(Int), ex |-> BOOLEAN]                          *)
EXTENDS PncCore, Interp

CoordInts(f, d) == LET v == VarRec(f, d) IN [k \in 1..Len(v.vals) |-> v.vals[k].n]
Dom_interp(f, a) ==
  /\ HasDim(f, a.d) /\ HasVar(f, a.d)
  /\ LET v == VarRec(f, a.d) IN
       /\ v.dims = <<a.d>> /\ v.enc = "num" /\ Len(v.vals) >= 2
       /\ \A k \in 1..Len(v.vals) : v.vals[k].d = 1 /\ ~v.mask[k]
       /\ LET xs == CoordInts(f, a.d) IN
            (\A i \in 1..(Len(xs) - 1) : xs[i] < xs[i + 1]) \/ (\A i \in 1..(Len(xs) - 1) : xs[i] > xs[i + 1])
  /\ Len(a.nxs) >= 1
  \* (the weights are applied by a 1-D function: like every callable it needs
  \* non-empty arrays)
  /\ \A i \in 1..Len(f.vars) : VarHasDim(f.vars[i], a.d) =>
        (f.vars[i].enc = "num" /\ NoDup(f.vars[i].dims) /\ ProdSeq(f.vars[i].shape) >= 1)
\* values are decided on small integer data without non-finite cells
Dec_interp(f, a) ==
  \A i \in 1..Len(f.vars) : VarHasDim(f.vars[i], a.d) =>
     (MaxDen(f.vars[i]) = 1 /\ MaxAbs(f.vars[i]) <= 20000 /\ ~HasNonFin(f.vars[i]))

InterpVar(f, a, v) ==
  IF ~VarHasDim(v, a.d) THEN v
  ELSE LET ax == CHOOSE q \in 1..Len(v.dims) : v.dims[q] = a.d
           W == Weights(CoordInts(f, a.d), a.nxs, a.ex)
           m == Len(a.nxs)
           nshape == [q \in 1..Len(v.dims) |-> IF q = ax THEN m ELSE v.shape[q]]
       IN IF \E k \in 1..Len(v.mask) : v.mask[k]
          THEN [v EXCEPT !.shape = nshape] @@ [free |-> TRUE]
          ELSE WithArr(v, AlongAxis(ArrOf(v), ax, m,
                 LAMBDA vals, mask : [vals |-> [j \in 1..m |-> RSumSeq([i \in 1..Len(vals) |-> RMul(W[i][j], vals[i])])],
                                      mask |-> [j \in 1..m |-> FALSE]]))
Exp_interp(f, a) ==
  [f EXCEPT !.dims = [i \in 1..Len(f.dims) |-> IF f.dims[i].n = a.d THEN [f.dims[i] EXCEPT !.len = Len(a.nxs)] ELSE f.dims[i]],
            !.vars = [i \in 1..Len(f.vars) |-> InterpVar(f, a, f.vars[i])]]
=================================================================================
