------------------------------- MODULE Icartt_MC -------------------------------
EXTENDS Icartt, Json, IOUtils
VARIABLE st
Init == st \in [nv : 1..4, natt : 0..4, nrec : 1..4]
Next == UNCHANGED st
Spec == Init /\ [][Next]_st
InvDeclared == DeclaredMatchesActual(st)
InvReader == ReaderAgreesWithWriter(st)
EmitConstraint == IF IOEnv.PNC_EMIT = "1" THEN PrintT(ToJson(st)) ELSE TRUE
=================================================================================
