--------------------------------- MODULE NcStore ---------------------------------
(* C07: saving to netCDF and reopening reproduces the file.                   *)
(*                                                                            *)
(* Part 1 - the fill-value mechanism.  A masked variable carries any subset   *)
(* of the attributes missing_value / fill_value / _FillValue.  Saving creates *)
(* the disk variable with a fill value (DiskFill), replaces masked cells by   *)
(* DataFill, copies the attributes; reopening masks a cell iff its value      *)
(* equals the disk _FillValue or the missing_value attribute (netCDF4         *)
(* auto-masking).  MaskSurvives is the property on this mechanism.            *)
(*                                                                            *)
(* Part 2 - what "reproduces" means for a whole file: StoreDiff.              *)
EXTENDS PncCore

\* ------------------------------------------------------------------ part 1
\* a fill configuration: each attribute absent (0) or one of two values (1, 2)
None == 0
Default == 99            \* the library default when no attribute gives a fill value
DiskFill(c) == IF c.mv # None THEN c.mv ELSE IF c.fv # None THEN c.fv
               ELSE IF c.ufv # None THEN c.ufv ELSE Default
\* specified: masked cells are written with the fill value the disk variable has
DataFillSpec(c) == DiskFill(c)
\* deviation (what addVariableData did): the copied fill_value attribute first,
\* then _FillValue, then missing_value
DataFillDev(c) == IF c.fv # None THEN c.fv ELSE DiskFill(c)
ReadsMasked(c, x) == x = DiskFill(c) \/ (c.mv # None /\ x = c.mv)
MaskSurvives(c, datafill) == ReadsMasked(c, datafill)

\* ------------------------------------------------------------------ part 2
IntKinds == {"b", "h", "i", "l", "q", "B", "H", "I", "L", "Q"}
Classic == {"NETCDF3_CLASSIC", "NETCDF3_64BIT_OFFSET", "NETCDF4_CLASSIC"}
\* types of the classic data model: byte, char, short, int, float, double
RepresentableType(dt, flavour) ==
  IF flavour \in Classic THEN dt \in {"b", "h", "i", "f", "d", "S", "c"} ELSE TRUE
Representable(f, flavour) == \A i \in 1..Len(f.vars) : RepresentableType(f.vars[i].dt, flavour)

\* attributes modulo the persistence encoding of "masked": a masked variable
\* comes back with a _FillValue attribute it may not have had
NoUFV(attrs) == SelectSeq(attrs, LAMBDA a : a.k # "_FillValue")
UFV(attrs) == SelectSeq(attrs, LAMBDA a : a.k = "_FillValue")

VarStoreDiff(g, e) ==
  IF g.name # e.name THEN "variable order / names"
  ELSE IF g.dims # e.dims THEN "variable " \o e.name \o ": dimension tuple"
  ELSE IF g.dt # e.dt THEN "variable " \o e.name \o ": dtype"
  ELSE IF g.shape # e.shape THEN "variable " \o e.name \o ": shape"
  ELSE IF g.mask # e.mask THEN "variable " \o e.name \o ": mask (masked cells must come back masked, others not)"
  ELSE IF g.enc # e.enc THEN "variable " \o e.name \o ": value encoding"
  ELSE IF ~(\A k \in 1..Len(e.vals) : e.mask[k] \/ g.vals[k] = e.vals[k]) THEN "variable " \o e.name \o ": unmasked values not bit-identical"
  ELSE IF NoUFV(g.attrs) # NoUFV(e.attrs) THEN "variable " \o e.name \o ": attributes (names, order, values)"
  ELSE IF Len(UFV(e.attrs)) = 1 /\ Len(UFV(g.attrs)) = 1 /\ UFV(g.attrs) # UFV(e.attrs) THEN "variable " \o e.name \o ": _FillValue value"
  ELSE IF ~(\E k \in 1..Len(e.mask) : e.mask[k]) /\ Len(UFV(e.attrs)) = 0 /\ Len(UFV(g.attrs)) # 0
       THEN "variable " \o e.name \o ": unmasked variable gained a _FillValue"
  ELSE ""

StoreDiff(g, e) ==
  IF g.dims # e.dims THEN "dimensions (names, order, lengths, unlimited flags)"
  ELSE IF g.attrs # e.attrs THEN "global attributes (names, order, values)"
  ELSE IF Len(g.vars) # Len(e.vars) THEN "number of variables"
  ELSE IF \E i \in 1..Len(e.vars) : VarStoreDiff(g.vars[i], e.vars[i]) # ""
       THEN VarStoreDiff(g.vars[CHOOSE i \in 1..Len(e.vars) : VarStoreDiff(g.vars[i], e.vars[i]) # ""],
                         e.vars[CHOOSE i \in 1..Len(e.vars) : VarStoreDiff(g.vars[i], e.vars[i]) # ""])
  ELSE ""
=================================================================================
