----------------------------- MODULE Registry_Trace -----------------------------
(* Trace validation for C15: every recorded pncopen history must be a        *)
(* behaviour of Registry with the logged selection, registry and content.     *)
EXTENDS Registry, TraceLib

Env == JsonDeserialize(IOEnv.PNC_ENV)
EnvFiles == {Env.files[i] : i \in 1..Len(Env.files)}
EnvReg0 == Env.reg0
EnvClassOf == Env.classof
EnvAccept == [f \in EnvFiles |-> {Env.accept[f][i] : i \in 1..Len(Env.accept[f])}]
EnvExt == Env.ext

VARIABLES tid, l
tvars == <<registry, hist, sel, tid, l>>

TInit == /\ tid \in 1..NTraces
         /\ l = 0
         /\ registry = Traces[tid].regs[1]
         /\ hist = <<>>
         /\ sel = [f \in Files |-> {}]

RegStep(tr, e) ==
  \* a reader is registered while the process runs
  /\ Register(e.name)
  /\ Chk(tr, l + 1, "registry after registerreader", tr.regs[e.ra], registry')

OpenStep(tr, e) ==
  /\ Open(e.f)
  \* selection is the one a fresh process makes: a function of the file
  \* (as long as nothing was registered since the process started)
  /\ (registry = Reg0 => Chk(tr, l + 1, "selected reader", e.cls, Sel0(e.f)))
  \* ... and always the first accepting candidate of the CURRENT registry
  /\ Chk(tr, l + 1, "selected reader (current registry)", e.cls, Select(registry, e.f))
  \* the global registry is not changed by an open
  /\ Chk(tr, l + 1, "registry after open", tr.regs[e.ra], registry')
  \* the data presented do not depend on history ...
  /\ Chk(tr, l + 1, "content vs fresh-process content", e.digest, Env.digest0[e.f])
  \* ... and equal what the explicitly named format presents
  /\ (e.f \in DOMAIN Env.explicit =>
        Chk(tr, l + 1, "content vs explicit format", e.digest, Env.explicit[e.f]))

TStep ==
  LET tr == Traces[tid]
      e == tr.steps[l + 1]
  IN /\ l < Len(tr.steps)
     /\ l' = l + 1 /\ tid' = tid
     \* the process starts from the measured initial registry
     /\ (l = 0 => Chk(tr, 0, "initial registry", registry, Reg0))
     /\ Chk(tr, l + 1, "registry before the call", tr.regs[e.rb], registry)
     /\ IF e.f = "REG" THEN RegStep(tr, e) ELSE OpenStep(tr, e)
     /\ (l + 1 = Len(tr.steps) => TrAccept(tr))

TSpec == TInit /\ [][TStep]_tvars
=================================================================================
