------------------------------ MODULE NcSession_MC ------------------------------
(* All save histories of up to 3 files over two dimension names: HistoryFree;  *)
(* every maximal history is emitted for replay (several saves in ONE process). *)
(* With the deviation switched on (PNC_DEV = "unlim") TLC must find the        *)
(* violating history.                                                          *)
EXTENDS NcSession, Json, IOUtils, TLC
SetToSeqS(S) == IF S = {} THEN <<>> ELSE IF S = {"t"} THEN <<"t">> ELSE IF S = {"y"} THEN <<"y">> ELSE <<"t", "y">>
MCDimNames == {"t", "y"}
MCStickyU == IOEnv.PNC_DEV = "unlim"
EmitConstraint ==
  IF IOEnv.PNC_EMIT = "1" /\ Len(hist) = MaxSaves
  THEN PrintT(ToJson([hist |-> [i \in 1..Len(hist) |-> SetToSeqS(hist[i])]]))
  ELSE TRUE
=================================================================================
