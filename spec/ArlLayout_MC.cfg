SPECIFICATION Spec
INVARIANT InvSized
INVARIANT InvCount
INVARIANT InvPacking
CONSTRAINT EmitConstraint
CHECK_DEADLOCK FALSE
