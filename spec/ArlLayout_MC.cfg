SPECIFICATION Spec
INVARIANT InvSized
INVARIANT InvCount
INVARIANT InvPacking
INVARIANT InvLevelText
CONSTRAINT EmitConstraint
CHECK_DEADLOCK FALSE
