------------------------------ MODULE Ioapi_Trace ------------------------------
(* Trace validation for C10 and C11 (and the IOAPI clause of C01): recorded   *)
(* programs over IOAPI-convention files.  After every call that returns a     *)
(* file the metadata block must be coherent with the content (C10); a         *)
(* contiguous window must keep geo- and time-referencing (C11).               *)
EXTENDS Ioapi, TraceLib

EnfC10 == IOEnv.PNC_E_C10 = "1"
EnfC11 == IOEnv.PNC_E_C11 = "1"
EnfC02 == IOEnv.PNC_E_C02 = "1"
\* C05 on IOAPI files: a call that returns a new file leaves every existing
\* object (structure, attributes and the metadata block) as it was; only the
\* explicit in-place edits of the driver ("delvar") may change their target
EnfISO == IOEnv.PNC_E_ISO = "1"
\* C02 on the time flags (they are data of the file): a selection on TSTEP picks
\* exactly the selected records of the source's TFLAG, in the selected order
TflagSelDiag(src, a, g) ==
  LET ix == IF Selected(a, "TSTEP") THEN SelIdx(DimLen(src.f, "TSTEP"), SelOf(a, "TSTEP"))
            ELSE [k \in 1..Len(src.m.tflag_dates) |-> k - 1]
  IN IF g.m.tflag_dates # [k \in 1..Len(ix) |-> src.m.tflag_dates[ix[k] + 1]] THEN "TFLAG dates are not the selected records of the source"
     ELSE IF g.m.tflag_times # [k \in 1..Len(ix) |-> src.m.tflag_times[ix[k] + 1]] THEN "TFLAG times are not the selected records of the source"
     ELSE ""

NVarS(j) ==   \* structure-only variable (no data logged)
  [name |-> j.name, dims |-> j.dims, shape |-> j.shape, dt |-> j.dt, masked |-> j.masked,
   enc |-> "none", vals |-> <<>>, mask |-> <<>>, attrs |-> j.attrs]
NFileS(j) == [dims |-> j.dims, vars |-> [i \in 1..Len(j.vars) |-> NVarS(j.vars[i])],
              attrs |-> j.attrs, coords |-> j.coords, cls |-> j.cls]
Obj(j) == [f |-> NFileS(j.f), m |-> j.m]

VARIABLES tid, l, heap
tvars == <<tid, l, heap>>

TInit == /\ tid \in 1..NTraces /\ l = 0
         /\ heap = [o \in 1..Len(Traces[tid].init) |-> Obj(Traces[tid].init[o])]

ChkS(tr, ll, what, diag) ==
  IF diag = "" THEN TRUE
  ELSE Say([v |-> "MISMATCH", tid |-> tr.tid, l |-> ll, what |-> what, diag |-> diag]) /\ FALSE
KnownOr(tr, ll, what, diag, dev) ==
  IF diag = "" THEN TRUE
  ELSE IF dev # "" THEN TrKnown(tr, dev)
  ELSE Say([v |-> "MISMATCH", tid |-> tr.tid, l |-> ll, what |-> what, diag |-> diag]) /\ FALSE

MetaOK(m) == m.ok    \* every metadata attribute was present and exactly representable

\* ---- deviations recorded as known findings (see known_findings.json) ----------
\* returns the finding id that explains an incoherent result of step e, or ""
C10Deviation(e, src, g) == ""

TStep ==
  LET tr == Traces[tid]
      e == tr.steps[l + 1]
      post == [o \in 1..Len(e.post) |-> IF "same" \in DOMAIN e.post[o] THEN heap[o] ELSE Obj(e.post[o])]
  IN /\ l < Len(tr.steps)
     /\ l' = l + 1 /\ tid' = tid
     /\ heap' = post
     /\ (l = 0 /\ EnfC10) => \A o \in 1..Len(heap) :
          ChkS(tr, 0, "initial IOAPI object " \o ToString(o) \o " is not coherent",
               IF CoherentSansTflag(heap[o].f, heap[o].m) THEN "" ELSE CoherentDiag(heap[o].f, heap[o].m))
     \* files from the in-memory constructors (arrays, GRIDDESC text, by hand)
     /\ (l = 0) => \A o \in 1..Len(heap) : heap[o].m.isioapi =>
          ChkT(tr, 0, "C01 constructor: IOAPI time-step dimension of object " \o ToString(o) \o " is not unlimited", TstepUnlimited(heap[o].f))
     /\ (EnfISO => \A o \in 1..Len(heap) :
            (o # (IF e.act \in {"delvar", "addvar"} THEN e.src ELSE 0)) =>
               ChkS(tr, l + 1, "C05 " \o e.act \o ": IOAPI object " \o ToString(o) \o " was modified by the call",
                    IF post[o] = heap[o] THEN ""
                    ELSE IF post[o].m # heap[o].m THEN "metadata block (NVARS / VAR-LIST / start / grid attributes / TFLAG)"
                    ELSE "structure (dimensions, variables or attributes)"))
     /\ IF e.res = "raised" \/ e.new = 0 THEN TRUE
        ELSE LET g == post[e.new] src == heap[e.src] IN
          /\ ChkS(tr, l + 1, "C01 " \o e.act \o ": result not well-formed", WFDiag(g.f))
          /\ ChkT(tr, l + 1, "C01 " \o e.act \o ": IOAPI time-step dimension is not unlimited", TstepUnlimited(g.f))
          \* coherence is preserved: demanded when every input file was coherent;
          \* a zipped (several index lists) selection replaces standard dimensions
          \* by a point dimension and is outside the IOAPI conventions
          /\ (EnfC10 /\ g.m.isioapi /\ C10Demanded(g.f, g.m)
                /\ (Coherent(src.f, src.m) \/ (Len(e.others) = 0 /\ CoherentLag(src.f, src.m)))
                /\ (\A k \in 1..Len(e.others) : Coherent(heap[e.others[k]].f, heap[e.others[k]].m))
                /\ ~(e.act = "slice" /\ MultiList(e.args))) =>
               /\ ChkT(tr, l + 1, "C10 " \o e.act \o ": a metadata attribute is missing or not representable", MetaOK(g.m))
               /\ KnownOr(tr, l + 1, "C10 " \o e.act \o ": metadata incoherent after the operation",
                          CoherentDiag(g.f, g.m), C10Deviation(e, src, g))
          /\ (EnfC11 /\ e.act = "slice" /\ IsWindow(src.f, e.args)
                /\ (Coherent(src.f, src.m) \/ CoherentSansTflag(src.f, src.m) \/ CoherentLag(src.f, src.m))
                /\ MetaOK(src.m) /\ src.m.times_ok /\ src.m.vglvls_exact) =>
               /\ ChkT(tr, l + 1, "C11: metadata of the window missing or not representable", MetaOK(g.m) /\ g.m.times_ok /\ g.m.vglvls_exact)
               /\ ChkS(tr, l + 1, "C11 window does not keep referencing", WindowDiag(src.f, src.m, e.args, g.f, g.m))
          /\ (EnfC02 /\ e.act = "slice" /\ ~MultiList(e.args) /\ Dom_slice(src.f, e.args) /\ MetaOK(src.m) /\ HasDim(src.f, "TSTEP")
                /\ HasVar(src.f, "TFLAG")) =>
               ChkS(tr, l + 1, "C02 slice: time flags of the result", TflagSelDiag(src, e.args, g))
          \* C02 "attributes carried over": every data variable of a slice keeps the
          \* attributes it has in the source (the IOAPI wrapper re-creates variables)
          /\ (EnfC02 /\ e.act = "slice" /\ ~MultiList(e.args)) =>
               \A i \in 1..Len(g.f.vars) :
                  LET v == g.f.vars[i] IN
                  (v.name # "TFLAG" /\ HasVar(src.f, v.name)) =>
                     ChkT(tr, l + 1, "C02 slice: attributes of variable " \o v.name \o " are not those of the source",
                          NoFV(v.attrs) = NoFV(VarRec(src.f, v.name).attrs))
     /\ (l + 1 = Len(tr.steps) => TrAccept(tr))

TSpec == TInit /\ [][TStep]_tvars
=================================================================================
