-------------------------------- MODULE Registry --------------------------------
(* C15: format auto-detection depends only on the file, not on history.       *)
(*                                                                            *)
(* State: the process-global reader registry (a sequence of reader names;     *)
(* ClassOf maps a name to the class it denotes) and the history of opens.     *)
(* One action per public call: Open(f) is pncopen(path) without a format,     *)
(* OpenAs(f, n) is pncopen(path, format=n), Register(n) is registerreader.    *)
(* The environment (which class accepts which file, the suffix of each path,  *)
(* the initial registry) is a constant measured in a fresh interpreter: it is *)
(* data about the installed readers, not an oracle for the property.          *)
EXTENDS Sequences, Integers, FiniteSets, TLC

CONSTANTS Files,      \* set of file ids
          Reg0,       \* initial registry: sequence of names
          ClassOf,    \* name -> class id
          Accept,     \* file -> set of class ids whose isMine accepts it
          Ext,        \* file -> suffix (a name, or "" / unknown)
          Aliasing,   \* TRUE: model the aliasing deviation (suffix entry is
                      \*       inserted into the registry itself)
          MaxHist

VARIABLES registry, hist, sel

vars == <<registry, hist, sel>>

Names(reg) == {reg[i] : i \in 1..Len(reg)}

\* the candidate list getreader walks for file f, given the registry
Candidates(reg, f) ==
  IF Ext[f] \in Names(reg) THEN <<Ext[f]>> \o reg ELSE reg

FirstAccepting(cands, f) ==
  LET idx == {i \in 1..Len(cands) : ClassOf[cands[i]] \in Accept[f]}
  IN IF idx = {} THEN "<none>"
     ELSE ClassOf[cands[CHOOSE i \in idx : \A j \in idx : i <= j]]

Select(reg, f) == FirstAccepting(Candidates(reg, f), f)

\* what a fresh process would select: the reference for history freedom
Sel0(f) == Select(Reg0, f)

Init == registry = Reg0 /\ hist = <<>> /\ sel = [f \in Files |-> {}]

Open(f) ==
  /\ Len(hist) < MaxHist
  /\ hist' = Append(hist, f)
  /\ sel' = [sel EXCEPT ![f] = @ \cup {Select(registry, f)}]
  /\ registry' = IF Aliasing THEN Candidates(registry, f) ELSE registry

\* opening with a named format never consults or changes the registry order
OpenAs(f) ==
  /\ Len(hist) < MaxHist
  /\ hist' = Append(hist, f)
  /\ UNCHANGED <<registry, sel>>

\* registerreader(n, cls) - also what creating a subclass of the file class
\* does: a new name goes to the FRONT of the registry; a known name changes nothing
Register(n) ==
  /\ registry' = IF n \in Names(registry) THEN registry ELSE <<n>> \o registry
  /\ UNCHANGED <<hist, sel>>

Next == \E f \in Files : Open(f)

Spec == Init /\ [][Next]_vars

\* --- the property ---------------------------------------------------------
HistoryFree == \A f \in Files : sel[f] \subseteq {Sel0(f)}
RegistryStable == [][registry' = registry]_vars
=================================================================================
