SPECIFICATION Spec
CONSTANTS
  Objs <- MCObjs
  Ids <- MCIds
  StaleClose <- MCStale
  MaxSteps <- MCMax
INVARIANT OthersStayValid
INVARIANT NoSharedHandle
PROPERTY OnlyOwnerReleases
VIEW StateView
CHECK_DEADLOCK FALSE
