----------------------------- MODULE NcHandles_MC -----------------------------
EXTENDS NcHandles, Json, IOUtils
MCObjs == {"A", "B", "C"}
MCIds == 1..3
MCStale == IOEnv.PNC_STALE = "1"
MCMax == atoi(IOEnv.PNC_MAXSTEPS)
\* emit every maximal schedule (length = MaxSteps) once
EmitConstraint ==
  /\ Bound
  /\ IF IOEnv.PNC_EMIT = "1" /\ Len(steps) = MaxSteps
     THEN PrintT(ToJson([steps |-> steps])) ELSE TRUE
=================================================================================
