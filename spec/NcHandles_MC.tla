----------------------------- MODULE NcHandles_MC -----------------------------
EXTENDS NcHandles, Json, IOUtils
MCObjs == {"A", "B", "C"}
MCIds == 1..3
MCStale == IOEnv.PNC_STALE = "1"
MCMax == atoi(IOEnv.PNC_MAXSTEPS)
\* the state without its history: with this VIEW (NcHandles_All.cfg, no bound on the
\* number of steps) TLC visits every reachable state of the three objects, i.e.
\* the invariants hold for schedules of ANY length
StateView == <<st, reach, fin, id, owner>>
\* emit every maximal schedule (length = MaxSteps) once
EmitConstraint ==
  /\ Bound
  /\ IF IOEnv.PNC_EMIT = "1" /\ Len(steps) = MaxSteps
     THEN PrintT(ToJson([steps |-> steps])) ELSE TRUE
=================================================================================
