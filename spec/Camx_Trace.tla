------------------------------- MODULE Camx_Trace -------------------------------
(* Trace validation for the CAMx formats.                                     *)
(*  kind "enc_read"   (C09 direction B, C13): the reference-encoded file      *)
(*                    opened by every reader of the format                    *)
(*  kind "write_walk" (C09 direction A, C08): the library writer's bytes      *)
(*                    walked into records; read back; rewritten               *)
(*  kind "cuts"       (C14): every prefix of the reference-encoded file       *)
EXTENDS CamxLayout, TraceLib

Prop == IOEnv.PNC_CAMX_PROP

VARIABLES tid, l
tvars == <<tid, l>>
TInit == tid \in 1..NTraces /\ l = 0
ChkS(tr, ll, what, diag) ==
  IF diag = "" THEN TRUE
  ELSE Say([v |-> "MISMATCH", tid |-> tr.tid, l |-> ll, what |-> what, diag |-> diag]) /\ FALSE

\* ---- binding of the transcribed decision procedures (C14): the reader may be
\* stricter than its model on a proper prefix (an error, or fewer steps: the
\* property allows both; reported as a NOTE), it must never expose more
ModelClause(tr, p, what, obs, mod, full) ==
  IF obs = mod THEN TRUE
  ELSE IF ~full /\ obs < mod
  THEN Say([v |-> "NOTE", tid |-> tr.tid, l |-> p, what |-> "the reader is stricter than its model on this prefix", got |-> obs, model |-> mod])
  ELSE Chk(tr, p, what, obs, mod)

\* ---- the content a reader must present for configuration c
\* the variables: the species of a uamiv file, or the fixed variables of a
\* meteorological format
VarsOf(c, names) ==
  CASE c.fmt = "uamiv" -> [s \in 1..Len(names) |-> [name |-> names[s], s |-> s, surf |-> FALSE, edge |-> 0]]
    \* lateral boundary: per species the four edges (the driver spells the names EDGE_SPECIES)
    [] c.fmt = "lateral_boundary" ->
         [q \in 1..(4 * Len(c.spc)) |-> [name |-> names[q], s |-> ((q - 1) \div 4) + 1, surf |-> FALSE, edge |-> ((q - 1) % 4) + 1]]
    [] OTHER -> FmtVars(c)
ExpDataV(c, v) ==
  IF v.edge > 0
  THEN LET nc == EdgeCells(c, v.edge) IN
       [q \in 1..(c.nt * nc * c.nz) |->
          Token(v.s, ((q - 1) \div (nc * c.nz)) + 1, ((q - 1) % c.nz) + 1, (((q - 1) \div c.nz) % nc) + 1, v.edge)]
  ELSE IF v.surf
  THEN [q \in 1..(c.nt * c.ny * c.nx) |->
          Token(v.s, ((q - 1) \div (c.nx * c.ny)) + 1, 0, (((q - 1) \div c.nx) % c.ny) + 1, ((q - 1) % c.nx) + 1)]
  ELSE [q \in 1..(c.nt * c.nz * c.ny * c.nx) |->
          LET i == ((q - 1) % c.nx) + 1
              j == (((q - 1) \div c.nx) % c.ny) + 1
              k == (((q - 1) \div (c.nx * c.ny)) % c.nz) + 1
              t == ((q - 1) \div (c.nx * c.ny * c.nz)) + 1
          IN Token(v.s, t, k, j, i)]
PerStep(c, v) == IF v.edge > 0 THEN EdgeCells(c, v.edge) * c.nz ELSE IF v.surf THEN c.ny * c.nx ELSE c.nz * c.ny * c.nx
\* instant of an IOAPI <YYYYJJJ, HHMMSS> flag
FlagInst(fl) == NormInst(JulToDay(fl[1]), HmsToSec(fl[2]), 0)

\* the sequential uamiv reader fails when the file's last step ends on another
\* day than its first step begins (known finding)
SpansMidnight(c) == EndOf(c, c.nt)[1] # BeginOf(c, 1)[1]
\* ... and the sequential temperature and wind readers when the two-digit dates wrap (99365 -> 00001)
SpansCentury(c) == YYJJJ(BeginOf(c, c.nt)) < YYJJJ(BeginOf(c, 1))
\* needflags: the reader defines TFLAG (the sequential readers do not)
ContentDiagH(c, names, got, nsteps, needflags, needhdr) ==
  LET vs == VarsOf(c, names) IN
  IF got.dims.TSTEP # nsteps THEN "number of time steps"
  ELSE IF got.dims.LAY # c.nz \/ got.dims.ROW # c.ny \/ got.dims.COL # c.nx THEN "grid dimensions"
  \* the sequential readers define no VAR dimension (logged as -1)
  ELSE IF got.dims.VAR # -1 /\ got.dims.VAR # Len(vs) THEN "VAR dimension / variable count"
  ELSE IF got.names # [q \in 1..Len(vs) |-> vs[q].name] THEN "variable names / order"
  ELSE IF ~got.dataok THEN "data are not the encoded values (not even integral)"
  ELSE IF \E q \in 1..Len(vs) : got.data[q] # SubSeq(ExpDataV(c, vs[q]), 1, nsteps * PerStep(c, vs[q]))
       THEN "float data of variable " \o vs[CHOOSE q \in 1..Len(vs) : got.data[q] # SubSeq(ExpDataV(c, vs[q]), 1, nsteps * PerStep(c, vs[q]))].name
  ELSE IF (needflags \/ Len(got.tflag) > 0) /\ Len(got.tflag) # nsteps THEN "number of begin time flags"
  ELSE IF \E t \in 1..Len(got.tflag) : FlagInst(got.tflag[t]) # BeginOf(c, t)
       THEN "begin time flag of step " \o ToString(CHOOSE t \in 1..Len(got.tflag) : FlagInst(got.tflag[t]) # BeginOf(c, t))
  \* grid header of the self-describing formats
  ELSE IF needhdr /\ c.fmt \in {"uamiv", "lateral_boundary"} /\
          got.hdr # [xorg |-> c.xorg, yorg |-> c.yorg, delx |-> c.delx, dely |-> c.dely, plon |-> c.plon, plat |-> c.plat,
                     tlat1 |-> c.tlat1, tlat2 |-> c.tlat2, iutm |-> c.iutm, istag |-> c.istag, iproj |-> c.iproj, itzon |-> c.itzon]
       THEN "grid header (origin, cell sizes, projection parameters, time zone)"
  ELSE IF Len(got.etflag) > 0 /\ (\E t \in 1..nsteps : FlagInst(got.etflag[t]) # EndOf(c, t))
       THEN "end time flag of step " \o ToString(CHOOSE t \in 1..nsteps : FlagInst(got.etflag[t]) # EndOf(c, t))
  ELSE ""

ContentDiag(c, names, got, nsteps, needflags) == ContentDiagH(c, names, got, nsteps, needflags, FALSE)

\* the step count the memory-mapped reader's rule yields for a prefix of n bytes
HeaderBytes(cc) == Offset(cc, NHeader(cc))
BlockBytes(cc) == Offset(cc, NHeader(cc) + RecsPerStep(cc)) - HeaderBytes(cc)

\* the meteorological formats have no header: a prefix made of whole records of
\* the first time step looks like a complete single-step file with fewer layers
MetRecBytes(c) == 4 * (2 + c.nx * c.ny) + 8
HeaderlessFirstStep(c, n) == c.fmt \in (MetFmts \ {"wind"}) /\ n > 0 /\ n < BlockBytes(c) /\ n % MetRecBytes(c) = 0

TStep ==
  LET tr == Traces[tid] c == tr.cfg IN
  /\ l = 0 /\ l' = 1 /\ tid' = tid
  /\ CASE tr.kind = "enc_read" ->
          /\ Chk(tr, 1, "reference encoder produced the size the layout states", tr.nbytes, tr.expbytes)
          \* C09 (direction B): every reader presents exactly the encoded content
          /\ (Prop = "C09" => \A r \in 1..Len(tr.reads) : LET rd == tr.reads[r] IN
               IF rd.res # "ok" /\ rd.reader = "read" /\
                    ((c.fmt = "uamiv" /\ SpansMidnight(c)) \/ (c.fmt \in {"temperature", "wind"} /\ SpansCentury(c)))
               THEN TrKnown(tr, "C09_K1_sequential_reader_midnight")
               ELSE IF rd.res = "raised" /\ rd.reader = "read" /\ c.fmt \in MetFmts /\ c.nt = 1
               THEN TrKnown(tr, "C09_K2_sequential_met_single_step")
               \* the sequential wind reader looks for the next time record by its
               \* SIZE: a slab of 2 (3) cells has the size of the two- (three-)word record
               ELSE IF rd.res = "raised" /\ rd.reader = "read" /\ c.fmt = "wind"
                         /\ c.nx * c.ny = (IF c.hdr3 THEN 3 ELSE 2)
               THEN TrKnown(tr, "C09_K3_sequential_wind_slab_size")
               ELSE /\ ChkT(tr, r, "reader '" \o rd.reader \o "' rejected a valid file: " \o rd.exc, rd.res = "ok")
                    /\ ChkS(tr, r, "reader '" \o rd.reader \o "' does not present the encoded content",
                            ContentDiagH(c, tr.names, rd.got, c.nt, rd.reader = "memmap" /\ c.fmt # "landuse", rd.reader = "memmap")))
          \* C13: when both reader families accept the file they expose the same
          \* lengths, data and time flags
          /\ (Prop = "C13" /\ (\A r \in 1..Len(tr.reads) : tr.reads[r].res = "ok") =>
                \A r \in 2..Len(tr.reads) : LET a == tr.reads[1].got b == tr.reads[r].got IN
                  \* dimensions both define (an undefined one is logged as -1)
                  /\ \A dk \in {"TSTEP", "LAY", "ROW", "COL", "VAR"} :
                       (a.dims[dk] = -1 \/ b.dims[dk] = -1) \/
                         Chk(tr, r, "length of dimension " \o dk \o " (memmap vs " \o tr.reads[r].reader \o ")", b.dims[dk], a.dims[dk])
                  /\ Chk(tr, r, "float data (memmap vs " \o tr.reads[r].reader \o ")", b.data, a.data)
                  /\ (Len(a.tflag) = 0 \/ Len(b.tflag) = 0) \/ Chk(tr, r, "begin time flags (memmap vs " \o tr.reads[r].reader \o ")",
                         [t \in 1..Len(b.tflag) |-> FlagInst(b.tflag[t])], [t \in 1..Len(a.tflag) |-> FlagInst(a.tflag[t])]))
       [] tr.kind = "write_walk" ->
          /\ ChkT(tr, 1, "writer raised: " \o tr.wexc, tr.wres = "ok")
          \* C09 (direction A): the written bytes follow the published layout
          /\ (Prop = "C09" =>
                /\ ChkT(tr, 1, "bytes after the last complete record (file is not tiled by records)", tr.tail = 0)
                /\ Chk(tr, 1, "number of records", Len(tr.records), Len(Layout(c)))
                /\ \A ri \in 1..Len(tr.records) :
                     ChkS(tr, ri, "record " \o ToString(ri) \o " of the written file", RecordDiag(Layout(c), ri, tr.records[ri])))
          \* C08: round trip and idempotent rewrite
          /\ (Prop = "C08" =>
                /\ ChkT(tr, 1, "re-read raised: " \o tr.rexc, tr.rres = "ok")
                /\ ChkS(tr, 1, "read(write(f)) differs from f", ContentDiagH(c, tr.names, tr.got, c.nt, c.fmt # "landuse", TRUE))
                /\ ChkT(tr, 1, "write(read(write(f))) is not byte-identical to write(f)", tr.same_bytes)
                \* the same content through a netCDF copy (the writer's documented
                \* route), one cell per species holding netCDF's default fill value
                /\ ChkT(tr, 1, "uamiv written from the netCDF copy of a file: " \o tr.ncroute,
                        tr.ncroute \in {"same", "skipped"}))
       [] tr.kind = "cuts" ->
          \A p \in 1..Len(tr.obs) : LET o == tr.obs[p] IN
            /\ ChkT(tr, p, "reader did not terminate on the prefix of " \o ToString(o.n) \o " bytes", o.k # "Hang")
            \* (update mode: numpy extends a file shorter than the header before the
            \* reader raises - a side effect the property does not speak about; steps
            \* exposed from a file the reader itself extended are fabricated)
            /\ ChkT(tr, p, "the reader extended the " \o ToString(o.n) \o "-byte prefix and exposed steps from it", ~(o.grew /\ o.k = "Steps"))
            /\ (o.k = "Steps" =>
               IF HeaderlessFirstStep(c, o.n) /\ o.steps > CompleteSteps(c, o.n)
               THEN TrKnown(tr, "C14_K1_headerless_first_step")
               ELSE IF c.fmt = "cloud_rain" /\ CloudAliased(c, o.n)
               THEN TrKnown(tr, "C14_K2_cloud_rain_variant_alias")
               ELSE
                  /\ ChkT(tr, p, "prefix of " \o ToString(o.n) \o " bytes: more steps exposed than are complete",
                          o.steps >= 0 /\ o.steps <= CompleteSteps(c, o.n))
                  /\ ChkS(tr, p, "prefix of " \o ToString(o.n) \o " bytes: exposed steps differ from the full file",
                          ContentDiag(c, tr.names, [dims |-> [TSTEP |-> o.steps, LAY |-> c.nz, ROW |-> c.ny, COL |-> c.nx, VAR |-> -1],
                                                    names |-> tr.names, data |-> o.data, dataok |-> o.dataok,
                                                    tflag |-> o.tflag, etflag |-> <<>>], o.steps, TRUE)))
            \* the outcome is the one the transcribed decision procedure predicts
            /\ (tr.reader = "memmap" /\ c.fmt = "uamiv") =>
                  ModelClause(tr, p, "prefix of " \o ToString(o.n) \o " bytes: outcome differs from the reader model",
                      IF o.k = "Steps" THEN o.steps ELSE -1,
                      IF o.n > HeaderBytes(c) /\ (o.n - HeaderBytes(c)) % BlockBytes(c) = 0
                      THEN (o.n - HeaderBytes(c)) \div BlockBytes(c) ELSE -1, o.n = tr.nbytes)
            \* (size rule and marker comparison: CloudOpenM)
            /\ (tr.reader = "memmap" /\ c.fmt = "cloud_rain" /\ ~CloudAliased(c, o.n)) =>
                  ModelClause(tr, p, "prefix of " \o ToString(o.n) \o " bytes: outcome differs from the cloud/rain reader model",
                      IF o.k = "Steps" THEN o.steps ELSE -1,
                      LET w == CloudOpenM(c, o.n) IN IF w.k = "Steps" THEN w.n ELSE -1, o.n = tr.nbytes)
            /\ (tr.reader = "memmap" /\ c.fmt = "lateral_boundary") =>
                  ModelClause(tr, p, "prefix of " \o ToString(o.n) \o " bytes: outcome differs from the lateral boundary reader model",
                      IF o.k = "Steps" THEN o.steps ELSE -1,
                      IF o.n > HeaderBytes(c) /\ (o.n - HeaderBytes(c)) % BlockBytes(c) = 0
                      THEN (o.n - HeaderBytes(c)) \div BlockBytes(c) ELSE -1, o.n = tr.nbytes)
            /\ (tr.reader = "memmap" /\ c.fmt = "wind") =>
                  ModelClause(tr, p, "prefix of " \o ToString(o.n) \o " bytes: outcome differs from the wind reader model",
                      IF o.k = "Steps" THEN o.steps ELSE -1,
                      LET w == WindOpenF(c, o.n, FALSE) IN IF w.k = "Steps" THEN w.n ELSE -1, o.n = tr.nbytes)
       [] tr.kind = "bigcuts" ->
          /\ Chk(tr, 1, "reference encoder produced the size the layout states", tr.nbytes, tr.expbytes)
          /\ \A p \in 1..Len(tr.obs) : LET o == tr.obs[p] IN
            /\ ChkT(tr, p, "reader did not terminate on the prefix of " \o ToString(o.n) \o " bytes", o.k # "Hang")
            /\ ChkT(tr, p, "opening the prefix of " \o ToString(o.n) \o " bytes (mode " \o o.mode \o ") changed the file size", o.size_after = o.n)
            /\ (o.k = "Steps" =>
                  /\ ChkT(tr, p, "prefix of " \o ToString(o.n) \o " bytes (mode " \o o.mode \o "): more steps exposed than are complete",
                          o.steps >= 0 /\ o.steps <= CompleteStepsA(c, o.n))
                  /\ \A q \in 1..Len(o.samples) : LET x == o.samples[q] IN
                       ChkT(tr, p, "prefix of " \o ToString(o.n) \o " bytes (mode " \o o.mode \o "): exposed data differ from the full file",
                            x[7] /\ x[6] = Token(x[1], x[2], x[3], x[4], x[5])))
            /\ ModelClause(tr, p, "prefix of " \o ToString(o.n) \o " bytes (mode " \o o.mode \o "): outcome differs from the reader model",
                   IF o.k = "Steps" THEN o.steps ELSE -1,
                   IF o.n > UamivHeaderBytesA(c) /\ (o.n - UamivHeaderBytesA(c)) % UamivBlockBytesA(c) = 0
                   THEN (o.n - UamivHeaderBytesA(c)) \div UamivBlockBytesA(c) ELSE -1, o.n = tr.nbytes)
  /\ TrAccept(tr)
TSpec == TInit /\ [][TStep]_tvars
=================================================================================
