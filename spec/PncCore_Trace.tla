----------------------------- MODULE PncCore_Trace -----------------------------
(* Trace validation for C01-C06: every recorded program (a template file and  *)
(* a sequence of public calls, with the projection of every live object after *)
(* each call) must be a behaviour of the PncCore machine.                     *)
(*                                                                            *)
(* Per step the specification checks                                          *)
(*  - C05: every object that existed before the call is unchanged (only the   *)
(*         target of an explicit write may change);                           *)
(*  - C01: an in-domain call completes; every returned file is well-formed    *)
(*         and surviving dimensions keep their unlimited flag;                *)
(*  - C02/C03/C04/C06: the returned file equals the result the operation's    *)
(*         definition in PncCore yields on the pre-state.                     *)
EXTENDS PncInterp, TraceLib

\* ---------------------------------------------------------- normalisation
NVar(j) ==
  [name |-> j.name, dims |-> j.dims, shape |-> j.shape, dt |-> j.dt,
   masked |-> j.masked,
   enc |-> IF j.enc \in {"int", "rat"} THEN "num" ELSE j.enc,
   vals |-> IF j.enc = "int" THEN [k \in 1..Len(j.cells) |-> RInt(j.cells[k])]
            ELSE IF j.enc = "rat" THEN [k \in 1..Len(j.cells) |-> [n |-> j.cells[k], d |-> j.den[k]]]
            ELSE j.cells,
   mask |-> [k \in 1..Len(j.mask) |-> j.mask[k] = 1],
   attrs |-> j.attrs]
NFile(j) == [dims |-> j.dims, vars |-> [i \in 1..Len(j.vars) |-> NVar(j.vars[i])],
             attrs |-> j.attrs, coords |-> j.coords, cls |-> j.cls]

\* which clauses this run enforces (each property's check enforces its own)
EnfWF == IOEnv.PNC_E_WF = "1"
EnfISO == IOEnv.PNC_E_ISO = "1"
EnfVAL == IOEnv.PNC_E_VAL = "1"
\* value clauses are enforced for the steps of this property ("*" = all)
EnfProp == IOEnv.PNC_E_PROP

VARIABLES tid, l, heap
tvars == <<tid, l, heap>>

TInit == /\ tid \in 1..NTraces
         /\ l = 0
         /\ heap = [o \in 1..Len(Traces[tid].init) |-> NFile(Traces[tid].init[o])]

\* "" = fine, otherwise print the diagnostic and fail
ChkS(tr, ll, what, diag) ==
  IF diag = "" THEN TRUE
  ELSE Say([v |-> "MISMATCH", tid |-> tr.tid, l |-> ll, what |-> what, diag |-> diag]) /\ FALSE

Files(hp, ids) == [i \in 1..Len(ids) |-> hp[ids[i]]]

\* operations whose result carries attributes / dtype unchanged ("full")
FullOps == {"copy", "slice", "stack", "subset", "renamevar", "renamedim", "renamedims",
            "rmsingle", "insertdim", "reorder"}

\* arguments as the operation sees them (fuzzy addressing of the string forms)
ArgsOf(e, f) == CASE e.act = "apply" -> FzApply(f, e.args)
                  [] e.act = "slice" -> FzSlice(f, e.args)
                  [] e.act = "stack" -> IF "defaultdim" \in DOMAIN e.args THEN [e.args EXCEPT !.dim = DefaultStackDim(f)] ELSE e.args
                  [] OTHER -> e.args
\* the standard deviation is decided through its square: a call that names
\* "std" for one dimension is the "var" call, compared with the squares of the
\* result (logged as e.sq: the result file with the reduced variables squared)
StdCall(a) == Len(a.funcs) = 1 /\ a.funcs[1].kind = "reducer" /\ a.funcs[1].f = "std"
AsVar(a) == IF StdCall(a) THEN [a EXCEPT !.funcs = <<[a.funcs[1] EXCEPT !.f = "var"]>>] ELSE a
NonNegDiag(g, f, a) ==
  IF \E i \in 1..Len(g.vars) : g.vars[i].enc = "num" /\ VarHasDim(g.vars[i], a.funcs[1].d)
        /\ \E k \in 1..Len(g.vars[i].vals) : ~g.vars[i].mask[k] /\ g.vars[i].vals[k].d > 0 /\ g.vars[i].vals[k].n < 0
  THEN "a standard deviation is negative" ELSE ""

InDomain(e, hp) ==
  LET f == hp[e.src] a == ArgsOf(e, f) IN
  CASE e.act = "copy" -> Dom_copy(f, a)
    [] e.act = "slice" -> Dom_slice(f, a)
    [] e.act = "apply" -> Dom_apply(f, AsVar(a))
    [] e.act = "stack" -> a.dim # "" /\ Dom_stack(Files(hp, <<e.src>> \o e.others), a)
    [] e.act = "subset" -> Dom_subset(f, a)
    [] e.act = "renamevar" -> Dom_renamevar(f, a)
    [] e.act = "renamedim" -> Dom_renamedim(f, a)
    [] e.act = "renamedims" -> Dom_renamedims(f, a)
    [] e.act = "rmsingle" -> Dom_rmsingle(f, a)
    [] e.act = "insertdim" -> Dom_insertdim(f, a)
    [] e.act = "reorder" -> Dom_reorder(f, a)
    [] e.act = "mask" -> Dom_mask(f, a)
    [] e.act = "arith" -> Dom_arith(Files(hp, <<e.src>> \o e.others), a)
    \* (on a disk-backed file the names of an expression are netCDF4 variables,
    \* which have no arithmetic: expressions there must slice, "A[:] + 1")
    [] e.act = "eval" -> f.cls # "netcdf" /\ Dom_eval(f, a)
    [] e.act = "interp" -> Dom_interp(f, a)
    [] OTHER -> FALSE

Decidable(e, hp) ==
  LET f == hp[e.src] a == ArgsOf(e, f) IN
  CASE e.act = "apply" -> Dec_apply(f, AsVar(a)) /\ (StdCall(a) => "sq" \in DOMAIN e)
    [] e.act = "arith" -> Dec_arith(Files(hp, <<e.src>> \o e.others), a)
    [] e.act = "eval" -> Dec_eval(f, a)
    [] e.act = "mask" -> Dec_mask(f, a)
    [] e.act = "interp" -> Dec_interp(f, a)
    [] OTHER -> TRUE

ResultDiff(e, hp, g) ==
  LET f == hp[e.src] a == ArgsOf(e, f) IN
  CASE e.act = "copy" -> FileDiff(g, Exp_copy(f, a), "full")
    [] e.act = "slice" -> FileDiff(g, Exp_slice(f, a), "full")
    [] e.act = "apply" -> IF StdCall(a)
                          THEN (IF NonNegDiag(g, f, a) # "" THEN NonNegDiag(g, f, a)
                                ELSE FileDiff(NFile(e.sq), Exp_apply(f, AsVar(a)), "val"))
                          ELSE FileDiff(g, Exp_apply(f, a), "val")
    [] e.act = "stack" -> FileDiff(g, Exp_stack(Files(hp, <<e.src>> \o e.others), a), "full")
    [] e.act = "subset" -> FileDiff(g, Exp_subset(f, a), "full")
    [] e.act = "renamevar" -> FileDiff(g, Exp_renamevar(f, a), "full")
    [] e.act = "renamedim" -> FileDiff(g, Exp_renamedim(f, a), "full")
    [] e.act = "renamedims" -> FileDiff(g, Exp_renamedims(f, a), "full")
    [] e.act = "rmsingle" -> FileDiff(g, Exp_rmsingle(f, a), "full")
    [] e.act = "insertdim" -> FileDiff(g, Exp_insertdim(f, a), "full")
    [] e.act = "reorder" -> FileDiff(g, Exp_reorder(f, a, g), "full")
    [] e.act = "mask" -> FileDiff(g, Exp_mask(f, a), "val")
    [] e.act = "arith" -> FileDiff(g, Exp_arith(Files(hp, <<e.src>> \o e.others), a), "val")
    [] e.act = "eval" -> EvalDiff(g, Exp_eval(f, a))
    [] e.act = "interp" -> FileDiff(g, Exp_interp(f, a), "val")

TStep ==
  LET tr == Traces[tid]
      e == tr.steps[l + 1]
      post == [o \in 1..Len(e.post) |->
                 IF "same" \in DOMAIN e.post[o] THEN heap[o] ELSE NFile(e.post[o])]
      \* the only object a step may change: the target of an explicit write
      target == IF e.act = "writeall" THEN e.src ELSE 0
      isQuery == e.act \in {"query", "writeall"}
  IN /\ l < Len(tr.steps)
     /\ l' = l + 1 /\ tid' = tid
     /\ heap' = post
     /\ (l = 0 => \A o \in 1..Len(heap) :
                    ChkS(tr, 0, "initial object " \o ToString(o) \o " is not well-formed", WFDiag(heap[o])))
     \* ---- C05: inputs and bystanders unchanged
     /\ ChkT(tr, l + 1, "object table shrank", Len(post) >= Len(heap))
     /\ \A o \in 1..Len(heap) :
          (EnfISO /\ o # target) =>
            \* known finding: the file pncexpr returns wraps the variables of its input
            IF e.act = "writeall" /\ "derived" \in DOMAIN e.args
               /\ (\E q \in 1..Len(e.args.derived.wraps) : e.args.derived.wraps[q] = o) /\ post[o] # heap[o]
            THEN TrKnown(tr, "C05_K1_pncexpr_shares_variables")
            ELSE
            ChkS(tr, l + 1, "C05 " \o e.act \o ": object " \o ToString(o) \o " was modified by the call",
                 IF post[o] = heap[o] THEN "" ELSE
                   (IF FileDiff(post[o], heap[o], "full") # "" THEN FileDiff(post[o], heap[o], "full")
                    ELSE "metadata (dimension/variable order, dtype or coordinate set)"))
     /\ IF isQuery
        THEN /\ ChkT(tr, l + 1, "query created an object", Len(post) = Len(heap))
             /\ (target # 0 => ChkS(tr, l + 1, "written object no longer well-formed", WFDiag(post[target])))
        ELSE IF e.res = "raised"
        THEN /\ ChkT(tr, l + 1, "failed call created an object", Len(post) = Len(heap))
             \* (C01 for every operation; C02-C06 for their own operations: a call
             \* that raises cannot yield the specified result)
             /\ ChkS(tr, l + 1, (IF EnfWF THEN "C01 " ELSE e.prop \o " ") \o e.act \o ": call with in-domain arguments raised",
                     IF (EnfWF \/ (EnfVAL /\ EnfProp \in {"*", e.prop})) /\ InDomain(e, heap) THEN e.exc ELSE "")
        ELSE LET g == post[e.new] IN
             /\ ChkT(tr, l + 1, "new object id", e.new = Len(heap) + 1 /\ Len(post) = e.new)
             /\ ChkS(tr, l + 1, "C01 " \o e.act \o ": result not well-formed", IF EnfWF THEN WFDiag(g) ELSE "")
             /\ ChkT(tr, l + 1, "C01 " \o e.act \o ": unlimited flag of a surviving dimension changed",
                     EnfWF => UnlimitedKept(heap[e.src], g))
             /\ ((EnfVAL /\ EnfProp \in {"*", e.prop} /\ InDomain(e, heap) /\ Decidable(e, heap)) =>
                   ChkS(tr, l + 1, e.prop \o " " \o e.act \o ": result differs from the specified result",
                        ResultDiff(e, heap, g)))
             \* C06: the coordinate variables of the (left) operand are coordinate
             \* variables of the result too - a further operator or mask() on the
             \* result passes them through again
             /\ ((EnfVAL /\ EnfProp \in {"*", e.prop} /\ e.act \in {"arith", "mask"} /\ InDomain(e, heap)) =>
                   ChkT(tr, l + 1, "C06 " \o e.act \o ": the result does not list the coordinate variables of its (left) operand",
                        {k \in SeqSet(heap[e.src].coords) : HasVar(g, k)} \subseteq SeqSet(g.coords)))
     /\ (l + 1 = Len(tr.steps) => TrAccept(tr))

TSpec == TInit /\ [][TStep]_tvars
=================================================================================
