------------------------------ MODULE Interp_Trace ------------------------------
(* Trace validation for C17: weights returned by getinterpweights and         *)
(* sigma2coeff, and values produced by interpDimension / interpSigma, against *)
(* the exact rational model of Interp.  Floats are logged as [n, d, ok] with  *)
(* ok = the fraction reproduces the float to 1e-9.                            *)
EXTENDS Interp, TraceLib

VARIABLES tid, l
tvars == <<tid, l>>
TInit == tid \in 1..NTraces /\ l = 0

Fr(x) == [n |-> x[1], d |-> x[2]]
OkAll(m) == \A i \in 1..Len(m) : \A j \in 1..Len(m[i]) : m[i][j][3] = 1
MatEq(tr, what, got, exp) ==
  /\ ChkT(tr, 1, what \o ": shape", Len(got) = Len(exp) /\ \A i \in 1..Len(exp) : Len(got[i]) = Len(exp[i]))
  /\ ChkT(tr, 1, what \o ": a float is not a small rational", OkAll(got))
  /\ \A i \in 1..Len(exp) : \A j \in 1..Len(exp[i]) :
       Chk(tr, 1, what \o " [" \o ToString(i - 1) \o "," \o ToString(j - 1) \o "]", Fr(got[i][j]), exp[i][j])

\* a single source level carries weight one for every target
WeightsT(xs, nxs, ex) == IF Len(xs) < 2 THEN <<[j \in 1..Len(nxs) |-> RInt(1)]>> ELSE Weights(xs, nxs, ex)
Applied(xs, nxs, ex, d) == LET W == WeightsT(xs, nxs, ex) IN [j \in 1..Len(nxs) |->
   RSumSeq([i \in 1..Len(xs) |-> RMul(W[i][j], RInt(d[i]))])]
Mid2(E) == [k \in 1..(Len(E) - 1) |-> E[k] + E[k + 1]]       \* twice the layer mid-points

TStep ==
  LET tr == Traces[tid] IN
  /\ l = 0 /\ l' = 1 /\ tid' = tid
  /\ IF tr.res = "raised"
     THEN \* a single source level cannot be interpolated (documented scipy limit)
          ChkT(tr, 1, "call raised: " \o tr.exc, tr.kind \in {"w", "app"} /\ Len(tr.xs) < 2)
     ELSE CASE tr.kind = "w" /\ Len(tr.xs) < 2 ->
                 \* a single source level (outside the documented domain): if weights
                 \* are returned they must still be a partition of unity
                 MatEq(tr, "weights (single source level)", tr.got, <<[j \in 1..Len(tr.nxs) |-> RInt(1)]>>)
            [] tr.kind = "w" /\ Len(tr.xs) >= 2 -> MatEq(tr, "weights", tr.got, Weights(tr.xs, tr.nxs, tr.ex))
            [] tr.kind = "c" -> MatEq(tr, "overlap coefficients", tr.got, Overlap(tr.F, tr.T))
            [] tr.kind = "app" -> MatEq(tr, "interpDimension values", <<tr.got>>, <<Applied(tr.xs, tr.nxs, tr.ex, tr.d)>>)
            [] tr.kind = "appnd" ->
                 \* N-D coordinate variables: each column on its own grid pair
                 /\ ChkT(tr, 1, "interpDimension (N-D): result shape", tr.shape_ok)
                 /\ ChkT(tr, 1, "interpDimension (N-D): unlimited flag of a surviving dimension changed (C01)", tr.flags_ok)
                 /\ \A q \in 1..Len(tr.cols) : LET c == tr.cols[q] IN
                      /\ MatEq(tr, "interpDimension (N-D) values of column " \o ToString(q - 1), <<c.got>>,
                               <<Applied(c.xs, c.nxs, tr.ex, c.d)>>)
                      /\ MatEq(tr, "interpDimension (N-D) coordinate of column " \o ToString(q - 1), <<c.gotz>>,
                               <<Applied(c.xs, c.nxs, tr.ex, c.xs)>>)
            [] tr.kind = "sig" ->
                 \* with a new model top (tr.vt1 # tr.vt0) the file's edges are first
                 \* expressed relative to that top; the target edges tr.T are then in
                 \* 1/tr.k2 units, like the converted source edges
                 LET newtop == tr.vt1 # tr.vt0
                     Fs == IF newtop THEN Resigma(tr.F, 8, tr.k2, tr.vt0, tr.vt1) ELSE tr.F
                 IN /\ ChkT(tr, 1, "generator: converted sigma edges are not whole units",
                            newtop => ResigmaExact(tr.F, 8, tr.k2, tr.vt0, tr.vt1))
                    /\ IF tr.itype = "linear"
                       THEN MatEq(tr, "interpSigma(linear) values", <<tr.got>>,
                                  <<Applied(Mid2(Fs), Mid2(tr.T), FALSE, tr.d)>>)
                       ELSE MatEq(tr, "interpSigma(conserve) values", <<tr.got>>,
                                  <<[j \in 1..(Len(tr.T) - 1) |-> Regrid(Fs, tr.T, tr.d, j)]>>)
  /\ TrAccept(tr)
TSpec == TInit /\ [][TStep]_tvars
=================================================================================
