-------------------------------- MODULE Calendar --------------------------------
(* Calendar arithmetic for C11/C12 (and the CAMx time headers of C08),        *)
(* written from the calendar definitions (CF conventions 4.4.1, ISO 8601):    *)
(*   "std"      proleptic Gregorian (= CF standard/gregorian after 1582)      *)
(*   "noleap"   every year has 365 days (CF noleap / 365_day)                 *)
(*   "all_leap" every year has 366 days (CF all_leap / 366_day)               *)
(* Day numbers count days since 1900-01-01 of the same calendar (day 0).      *)
(* An instant is <<day number, second of day, microsecond>>.                  *)
EXTENDS Integers, Sequences, TLC

Cals == {"std", "noleap", "all_leap"}
CalOf(name) ==
  CASE name \in {"standard", "gregorian", "proleptic_gregorian", "std"} -> "std"
    [] name \in {"noleap", "365_day"} -> "noleap"
    [] name \in {"all_leap", "366_day"} -> "all_leap"

IsLeapG(y) == (y % 4 = 0 /\ y % 100 # 0) \/ y % 400 = 0
IsLeap(cal, y) == CASE cal = "std" -> IsLeapG(y)
                    [] cal = "noleap" -> FALSE
                    [] cal = "all_leap" -> TRUE
DaysInYear(cal, y) == IF IsLeap(cal, y) THEN 366 ELSE 365

\* number of Gregorian leap years in 1..n
LeapsTo(n) == (n \div 4) - (n \div 100) + (n \div 400)
\* days from 1900-01-01 to y-01-01
DaysBeforeYear(cal, y) ==
  CASE cal = "std" -> 365 * (y - 1900) + (LeapsTo(y - 1) - LeapsTo(1899))
    [] cal = "noleap" -> 365 * (y - 1900)
    [] cal = "all_leap" -> 366 * (y - 1900)

MonthLen(cal, y, m) ==
  IF m = 2 THEN (IF IsLeap(cal, y) THEN 29 ELSE 28)
  ELSE IF m \in {4, 6, 9, 11} THEN 30 ELSE 31
RECURSIVE DaysBeforeMonth(_, _, _)
DaysBeforeMonth(cal, y, m) == IF m = 1 THEN 0 ELSE DaysBeforeMonth(cal, y, m - 1) + MonthLen(cal, y, m - 1)

ValidDate(cal, y, m, d) == m \in 1..12 /\ d >= 1 /\ d <= MonthLen(cal, y, m)
DayNum(cal, y, m, d) == DaysBeforeYear(cal, y) + DaysBeforeMonth(cal, y, m) + d - 1

\* inverse: the year containing day number n (located arithmetically, then fixed)
YearOf(cal, n) ==
  LET y0 == 1900 + (IF n >= 0 THEN (n \div 366) ELSE (0 - ((0 - n) \div 365)) - 1)
  IN CHOOSE y \in (y0 - 1)..(y0 + 3) : DaysBeforeYear(cal, y) <= n /\ n < DaysBeforeYear(cal, y + 1)
Civil(cal, n) ==
  LET y == YearOf(cal, n)
      doy == n - DaysBeforeYear(cal, y)            \* 0-based day of year
      m == CHOOSE mm \in 1..12 : DaysBeforeMonth(cal, y, mm) <= doy
                                  /\ doy < DaysBeforeMonth(cal, y, mm) + MonthLen(cal, y, mm)
  IN <<y, m, doy - DaysBeforeMonth(cal, y, m) + 1>>
DayOfYear(cal, n) == n - DaysBeforeYear(cal, YearOf(cal, n)) + 1     \* 1-based (JJJ)

\* ------------------------------------------------------------- IOAPI flags
\* YYYYJJJ: JJJ may exceed the year length (it then runs into the next year,
\* as plain day arithmetic does)
JulToDay(yyyyjjj) == DaysBeforeYear("std", yyyyjjj \div 1000) + (yyyyjjj % 1000) - 1
DayToJul(n) == YearOf("std", n) * 1000 + DayOfYear("std", n)
HmsToSec(hhmmss) == (hhmmss \div 10000) * 3600 + ((hhmmss % 10000) \div 100) * 60 + (hhmmss % 100)
SecToHms(s) == (s \div 3600) * 10000 + ((s % 3600) \div 60) * 100 + (s % 60)

\* ------------------------------------------------------------ instants
Inst(day, sec, us) == <<day, sec, us>>
\* normalise a (day, possibly large or negative second, microsecond) triple
NormInst(day, sec, us) ==
  LET s2 == sec + (us \div 1000000)
      u2 == us % 1000000
  IN <<day + (s2 \div 86400), s2 % 86400, u2>>
AddSec(t, k) == NormInst(t[1], t[2] + k, t[3])
\* civil tuple <<Y, M, D, h, m, s, us>> of an instant
CivilOf(cal, t) == LET c == Civil(cal, t[1]) IN
  <<c[1], c[2], c[3], t[2] \div 3600, (t[2] % 3600) \div 60, t[2] % 60, t[3]>>
InstLe(a, b) == a[1] < b[1] \/ (a[1] = b[1] /\ (a[2] < b[2] \/ (a[2] = b[2] /\ a[3] <= b[3])))

\* offset of w + q/4 units, unit \in {"days","hours","minutes","seconds"}, from instant ref
\* (w within 32-bit range; all intermediate values stay below 2^31)
AddUnits(ref, unit, w, q) ==
  CASE unit = "days"    -> NormInst(ref[1] + w, ref[2] + q * 21600, ref[3])
    [] unit = "hours"   -> NormInst(ref[1] + (w \div 24), ref[2] + (w % 24) * 3600 + q * 900, ref[3])
    [] unit = "minutes" -> NormInst(ref[1] + (w \div 1440), ref[2] + (w % 1440) * 60 + q * 15, ref[3])
    [] unit = "seconds" -> NormInst(ref[1] + (w \div 86400), ref[2] + (w % 86400), ref[3] + q * 250000)

\* inverse: number of whole units and quarters from ref to t (when exact)
UnitSec(unit) == CASE unit = "days" -> 86400 [] unit = "hours" -> 3600
                   [] unit = "minutes" -> 60 [] unit = "seconds" -> 1
=================================================================================
