------------------------------ MODULE Pipeline_MC ------------------------------
(* All command lines of up to MaxOpts options over a catalogue of abstract       *)
(* options (kind, slot): the order laws hold, and every command line is emitted   *)
(* for replay (the driver turns (kind, slot) into concrete arguments for a        *)
(* template file).                                                                *)
EXTENDS Pipeline, Json, IOUtils
MaxOpts == atoi(IOEnv.PNC_MAXOPTS)
Catalogue == { [k |-> kd, a |-> s] : kd \in {"mask", "slice", "reduce", "convolve", "expr"}, s \in 1..2 }
Lines == UNION { [1..n -> Catalogue] : n \in 1..MaxOpts }
VARIABLE p
Init == p \in Lines
Next == UNCHANGED p
Spec == Init /\ [][Next]_p
InvPermutation == CanonIsPermutation(p)
InvIdempotent == CanonIdempotent(p)
\* swapping two neighbouring options of different kinds does not change the pipeline
InvInterleaving == \A i \in 1..(Len(p) - 1) :
  p[i].k # p[i + 1].k =>
    InterleavingIrrelevant(p, [j \in 1..Len(p) |-> IF j = i THEN p[i + 1] ELSE IF j = i + 1 THEN p[i] ELSE p[j]])
EmitConstraint == IF IOEnv.PNC_EMIT = "1" THEN PrintT(ToJson([line |-> p])) ELSE TRUE
=================================================================================
