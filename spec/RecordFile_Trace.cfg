SPECIFICATION TSpec
CONSTANTS
  Lens = {}
  MaxOps = 0
  Dev = "none"
CHECK_DEADLOCK FALSE
