--------------------------- MODULE TimeDecode_Trace ---------------------------
(* C12: decoded times are the true instants for every supported encoding.     *)
(* Each trace is one file description and what getTimes() (and the inverse    *)
(* maps) returned on it; the expected instants are computed with Calendar.    *)
(*   kind "cf"    : time variable "unit since ref" with a calendar            *)
(*   kind "tflag" : IOAPI TFLAG <YYYYJJJ, HHMMSS> (+ TSTEP for bounds)        *)
(*   kind "sdate" : SDATE / STIME / TSTEP attributes and a TSTEP dimension    *)
(*   kind "tau"   : tau0 (hours since 1985-01-01)                             *)
(* "Whenever time decoding returns": a raise is allowed, a wrong instant not. *)
EXTENDS Calendar, TraceLib

VARIABLES tid, l
tvars == <<tid, l>>
TInit == tid \in 1..NTraces /\ l = 0

\* instant of a reference date given as <<Y, M, D, h, m, s>> with a UTC offset in minutes
RefInst(cal, r, tzm) == NormInst(DayNum(cal, r[1], r[2], r[3]), r[4] * 3600 + r[5] * 60 + r[6] - tzm * 60, 0)

\* a real (proleptic Gregorian) datetime can show the civil date of calendar cal
Showable(c) == ValidDate("std", c[1], c[2], c[3]) /\ c[1] >= 1 /\ c[1] <= 9999

ExpCF(tr, i) == CivilOf(CalOf(tr.cal), AddUnits(RefInst(CalOf(tr.cal), tr.ref, tr.tzm), tr.unit, tr.w[i], tr.q[i]))
ExpTflag(tr, i) == CivilOf("std", NormInst(JulToDay(tr.dates[i]), HmsToSec(tr.times[i]), 0))
StartOf(tr) == NormInst(JulToDay(tr.sdate), HmsToSec(tr.stime), 0)
ExpSdate(tr, i) == CivilOf("std", AddSec(StartOf(tr), (i - 1) * HmsToSec(tr.tstep)))
ExpTau(tr, i) == CivilOf("std", AddUnits(<<DayNum("std", 1985, 1, 1), 0, 0>>, "hours", tr.w[i], tr.q[i]))

InstIo(tr, i) == IF tr.kind = "tflag" THEN NormInst(JulToDay(tr.dates[i]), HmsToSec(tr.times[i]), 0)
                 ELSE AddSec(StartOf(tr), (i - 1) * HmsToSec(tr.tstep))
Expected(tr, i) ==
  CASE tr.kind = "cf" -> ExpCF(tr, i)
    [] tr.kind = "tflag" -> ExpTflag(tr, i)
    [] tr.kind = "sdate" -> ExpSdate(tr, i)
    [] tr.kind = "tau" -> ExpTau(tr, i)
NExpected(tr) ==
  CASE tr.kind = "cf" -> Len(tr.w)
    [] tr.kind = "tflag" -> Len(tr.dates)
    [] tr.kind = "sdate" -> tr.n
    [] tr.kind = "tau" -> Len(tr.w)

\* the instant after the last one for bounds=True (IOAPI: last + TSTEP)
ExpUpper(tr) ==
  CASE tr.kind = "tflag" -> CivilOf("std", AddSec(NormInst(JulToDay(tr.dates[Len(tr.dates)]), HmsToSec(tr.times[Len(tr.times)]), 0), HmsToSec(tr.tstep)))
    [] tr.kind = "sdate" -> ExpSdate(tr, tr.n + 1)

\* deviations recorded as known findings (DESIGN.md 7.3) -----------------------
\* C12_K1: the 365/366-day calendar branch of getTimes
NonStdCal(tr) == tr.kind = "cf" /\ CalOf(tr.cal) # "std"
\* ... is right only for whole days counted from a Jan-1 00:00:00 UTC reference in
\* days, hours or minutes; everything else in that branch is the finding
\* (and, for the 366-day calendars, when the decoded vector contains a Feb 29 of
\* a year that is not a leap year: the library then falls back to real-calendar
\* day arithmetic for the whole vector)
HasUnshowable(tr) == \E j \in 1..Len(tr.w) : ~Showable(Expected(tr, j))
K1Applies(tr, i) ==
  /\ NonStdCal(tr)
  /\ HasUnshowable(tr) \/ ~(/\ tr.ref[2] = 1 /\ tr.ref[3] = 1 /\ tr.ref[4] = 0 /\ tr.ref[5] = 0 /\ tr.ref[6] = 0
        /\ tr.tzm = 0 /\ tr.unit # "seconds"
        /\ LET e == Expected(tr, i) IN e[4] = 0 /\ e[5] = 0 /\ e[6] = 0 /\ e[7] = 0)

TStep ==
  LET tr == Traces[tid] IN
  /\ l = 0 /\ l' = 1 /\ tid' = tid
  /\ IF tr.res = "raised" THEN TRUE          \* decoding did not return
     ELSE
       /\ ChkT(tr, 1, "number of decoded times", Len(tr.got) = NExpected(tr))
       /\ \A i \in 1..NExpected(tr) :
            Showable(Expected(tr, i)) =>
              (IF K1Applies(tr, i) /\ tr.got[i] # Expected(tr, i)
               THEN TrKnown(tr, "C12_K1_nonstandard_calendar")
               ELSE Chk(tr, i, "decoded instant " \o ToString(i) \o " (" \o tr.kind \o ")", tr.got[i], Expected(tr, i)))
       \* CF cell bounds (time_bounds with the units of time and no calendar of its
       \* own): the lower edges are the instants of the time variable, decoded in
       \* the calendar of the time variable; the last upper edge is one unit later
       /\ ChkT(tr, 1, "getTimes(bounds=True) on a CF file raised: " \o tr.cfbounds.exc, tr.cfbounds.exc = "")
       /\ (tr.kind = "cf" /\ tr.cfbounds.h) =>
             /\ ChkT(tr, 1, "CF time bounds: number of edges", Len(tr.cfbounds.got) = NExpected(tr) + 1)
             /\ \A i \in 1..NExpected(tr) :
                  (Showable(Expected(tr, i)) /\ ~K1Applies(tr, i) /\ tr.got[i] = Expected(tr, i)) =>
                    Chk(tr, i, "CF time bounds: lower edge " \o ToString(i) \o " is not the instant of the time variable",
                        tr.cfbounds.got[i], Expected(tr, i))
       \* the numpy form (datetype = datetime64): the same instants, in UTC
       /\ (~NonStdCal(tr) => ChkT(tr, 1, "getTimes(datetype=datetime64) raised on a file whose getTimes() returned: " \o tr.dt64.exc, tr.dt64.exc = ""))
       /\ ((tr.dt64.h /\ ~NonStdCal(tr)) =>
             /\ ChkT(tr, 1, "datetime64 form: number of times", Len(tr.dt64.got) = NExpected(tr))
             /\ \A i \in 1..NExpected(tr) :
                  Showable(Expected(tr, i)) => Chk(tr, i, "datetime64 form of instant " \o ToString(i), tr.dt64.got[i], Expected(tr, i)))
       \* bounds=True : n+1 edges, the last one step after the last instant
       /\ ChkT(tr, 1, "getTimes(bounds=True) raised on a file whose getTimes() returned: " \o tr.bounds.exc, tr.bounds.exc = "")
       /\ (tr.bounds.h =>
             /\ ChkT(tr, 1, "bounds=True: number of edges", Len(tr.bounds.got) = NExpected(tr) + 1)
             /\ \A i \in 1..NExpected(tr) :
                  Chk(tr, i, "bounds=True: edge " \o ToString(i), tr.bounds.got[i], Expected(tr, i))
             /\ Chk(tr, NExpected(tr) + 1, "bounds=True: upper edge", tr.bounds.got[NExpected(tr) + 1], ExpUpper(tr)))
       \* CF only: inverse maps
       /\ (tr.kind = "cf" /\ tr.back.h /\ ~NonStdCal(tr)) =>
             /\ \A i \in 1..Len(tr.w) :
                  Chk(tr, i, "date2num(getTimes()) vs stored value", tr.back.v[i], <<tr.w[i], tr.q[i]>>)
             /\ (tr.back.strict => \A i \in 1..Len(tr.w) :
                  Chk(tr, i, "time2idx(getTimes()) vs position", tr.back.idx[i], i - 1))
       \* IOAPI only: the synthesised CF time variable decodes to the same instants
       /\ ChkT(tr, 1, "synthesis of a CF time variable raised: " \o tr.synth.exc, tr.synth.exc = "")
       /\ (~NonStdCal(tr) => ChkT(tr, 1, "date2num / time2idx of the decoded times raised: " \o tr.back.exc, tr.back.exc = ""))
       /\ (tr.kind \in {"tflag", "sdate"} /\ tr.synth.h) =>
             /\ ChkT(tr, 1, "synthesised time variable: length", Len(tr.synth.got) = NExpected(tr))
             /\ \A i \in 1..NExpected(tr) :
                  Chk(tr, i, "synthesised CF time variable vs flags", tr.synth.got[i], Expected(tr, i))
             \* ... and the synthesised time_bounds variable gives the same n + 1 edges
             /\ ChkT(tr, 1, "synthesised time_bounds: number of edges", Len(tr.synth.bgot) = NExpected(tr) + 1)
             /\ \A i \in 1..NExpected(tr) :
                  Chk(tr, i, "synthesised time_bounds: edge " \o ToString(i), tr.synth.bgot[i], Expected(tr, i))
             /\ Chk(tr, NExpected(tr) + 1, "synthesised time_bounds: upper edge", tr.synth.bgot[NExpected(tr) + 1], ExpUpper(tr))
             \* the same file starting synth.shift days later, with its own synthesised
             \* variable, stacked behind: the instants of the first, then of the second
             /\ (tr.synth.shift > 0) =>
                  /\ ChkT(tr, 1, "stack of two synthesised time variables: length", Len(tr.synth.sgot) = 2 * NExpected(tr))
                  /\ \A i \in 1..NExpected(tr) : Showable(Expected(tr, i)) =>
                       /\ Chk(tr, i, "stack of two synthesised time variables: instant of the first file", tr.synth.sgot[i], Expected(tr, i))
                       /\ Chk(tr, i, "stack of two synthesised time variables: instant of the second file",
                              tr.synth.sgot[NExpected(tr) + i], CivilOf("std", AddSec(InstIo(tr, i), tr.synth.shift * 86400)))
  /\ TrAccept(tr)

TSpec == TInit /\ [][TStep]_tvars
=================================================================================
