SPECIFICATION Spec
INVARIANT Inv_Coherent
INVARIANT Inv_WellFormed
PROPERTY WindowKeeps
CONSTRAINT EmitConstraint
CHECK_DEADLOCK FALSE
