SPECIFICATION Spec
INVARIANT Inv_WellFormed
PROPERTY UnlimitedKeptProp
CONSTRAINT EmitConstraint
CHECK_DEADLOCK FALSE
