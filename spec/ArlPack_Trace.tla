------------------------------ MODULE ArlPack_Trace ------------------------------
(* Trace validation for C20: pack2d / unpack called on integer fields scaled  *)
(* by 2^s (exact in float32); logged values are scaled back to integers.      *)
EXTENDS ArlPack, TraceLib

VARIABLES tid, l
tvars == <<tid, l>>
TInit == tid \in 1..NTraces /\ l = 0

TStep ==
  LET tr == Traces[tid]
      f2 == Doubled(tr.f)
      p == PackWith(f2, tr.nexp)
  IN /\ l = 0 /\ l' = 1 /\ tid' = tid
     /\ ChkT(tr, 1, "a logged value was not an exact half-integer after rescaling", tr.exact)
     \* the recorded exponent is the one the largest neighbour difference demands
     /\ ChkT(tr, 1, "recorded exponent NEXP does not fit the largest neighbour difference", ExpAdmissible(RMax(tr.f), tr.nexp) /\ (tr.nexp >= 6 \/ RMax(tr.f) = 0))
     /\ Chk(tr, 1, "VAR1 (first element)", tr.var1x2, f2[1][1])
     \* conformance: the code computes what the packing definition computes
     /\ Chk(tr, 1, "packed bytes", tr.bytes, p.bytes)
     /\ Chk(tr, 1, "unpack(pack(x))", tr.unp2, p.recon)
     \* the property on the observed values
     /\ Chk(tr, 1, "first element after unpacking", tr.unp2[1][1], f2[1][1])
     /\ ChkT(tr, 1, "checksum differs from the byte sum (mod 255)",
             tr.ksum >= 0 /\ tr.ksum <= 255 /\ (tr.ksum - ByteSum(p)) % 255 = 0)
     /\ \A j \in 1..NY(tr.f) : \A i \in 1..NX(tr.f) :
          IF AbsA(tr.unp2[j][i] - f2[j][i]) <= p.step THEN TRUE
          ELSE IF tr.bytes[j][i] = 0 \/ tr.bytes[j][i] = 255 THEN TrKnown(tr, "C20_K1_cutoff_below_minus_127_5")
          ELSE Say([v |-> "MISMATCH", tid |-> tr.tid, l |-> 1, what |-> "element differs by more than one quantisation step",
                    j |-> j, i |-> i, got2 |-> tr.unp2[j][i], x2 |-> f2[j][i], step2 |-> p.step]) /\ FALSE
     /\ TrAccept(tr)
TSpec == TInit /\ [][TStep]_tvars
=================================================================================
