------------------------------- MODULE NcHandles -------------------------------
(* C05 (second half): closing or garbage-collecting any file object, in any   *)
(* order and any number of times, never invalidates another open file.        *)
(*                                                                            *)
(* State: the netCDF C library's table of open handles (id -> owning object), *)
(* which recycles ids, and for each Python file object what it remembers.     *)
(* One action per step a program or the runtime can take: Open, Close (any    *)
(* number of times), Drop (last reference goes away), Finalise (the           *)
(* finaliser runs: at once through reference counting or later through the    *)
(* cyclic collector - any subset of the garbage, in any order), Read.         *)
EXTENDS Integers, FiniteSets, Sequences, TLC

CONSTANTS Objs,        \* file objects
          Ids,         \* handle ids the C library can hand out (a set of Nat)
          StaleClose,  \* TRUE: model the deviation "close releases the
                       \* remembered id even if it is no longer this object's"
          MaxSteps

NoObj == "none"

VARIABLES st,     \* obj -> "unborn" | "open" | "closed"   (user-level view)
          reach,  \* obj -> BOOLEAN   still referenced by the program
          fin,    \* obj -> BOOLEAN   finaliser has run
          id,     \* obj -> id remembered by the object (0 before open)
          owner,  \* id -> obj | NoObj  (the C library's handle table)
          steps   \* history: sequence of <<action, obj>> (for emission)

vars == <<st, reach, fin, id, owner, steps>>

Free == {i \in Ids : owner[i] = NoObj}
LowestFree == CHOOSE i \in Free : \A j \in Free : i <= j

Init == /\ st = [o \in Objs |-> "unborn"]
        /\ reach = [o \in Objs |-> FALSE]
        /\ fin = [o \in Objs |-> FALSE]
        /\ id = [o \in Objs |-> 0]
        /\ owner = [i \in Ids |-> NoObj]
        /\ steps = <<>>

Log(a, o) == steps' = Append(steps, <<a, o>>)

\* the C library hands out some free id (it recycles: in the bounded model the
\* lowest free one, in trace validation the one that was logged)
OpenWith(o, i) ==
  /\ st[o] = "unborn" /\ i \in Free
  /\ st' = [st EXCEPT ![o] = "open"]
  /\ reach' = [reach EXCEPT ![o] = TRUE]
  /\ id' = [id EXCEPT ![o] = i]
  /\ owner' = [owner EXCEPT ![i] = o]
  /\ UNCHANGED fin

Open(o) == Free # {} /\ OpenWith(o, LowestFree) /\ Log("open", o)

\* releasing the handle: as specified only while this object still owns it
Release(o) ==
  IF StaleClose /\ id[o] \in Ids
  THEN owner' = [owner EXCEPT ![id[o]] = NoObj]
  ELSE owner' = [i \in Ids |-> IF owner[i] = o THEN NoObj ELSE owner[i]]

Close(o) ==
  /\ st[o] \in {"open", "closed"} /\ reach[o]
  /\ Release(o)
  /\ st' = [st EXCEPT ![o] = "closed"]
  /\ UNCHANGED <<reach, fin, id>>
  /\ Log("close", o)

Drop(o) ==
  /\ st[o] # "unborn" /\ reach[o]
  /\ reach' = [reach EXCEPT ![o] = FALSE]
  /\ UNCHANGED <<st, fin, id, owner>>
  /\ Log("drop", o)

FinaliseCore(o) ==
  /\ st[o] # "unborn" /\ ~reach[o] /\ ~fin[o]
  /\ Release(o)
  /\ fin' = [fin EXCEPT ![o] = TRUE]
  /\ UNCHANGED <<st, reach, id>>

Finalise(o) == FinaliseCore(o) /\ Log("finalise", o)

Readable(o) == id[o] \in Ids /\ owner[id[o]] = o
Read(o) ==
  /\ st[o] = "open" /\ reach[o]
  /\ UNCHANGED <<st, reach, fin, id, owner>>
  /\ Log("read", o)

Next == \E o \in Objs : Open(o) \/ Close(o) \/ Drop(o) \/ Finalise(o)

Spec == Init /\ [][Next]_vars

Bound == Len(steps) <= MaxSteps

\* --- the property ----------------------------------------------------------
\* every object the program has opened, not closed and still references can be
\* read: the library's handle table still maps its id to it
OthersStayValid ==
  \A o \in Objs : (st[o] = "open" /\ reach[o]) => Readable(o)

\* no two live objects believe they own the same handle
NoSharedHandle ==
  \A a, b \in Objs :
    (a # b /\ st[a] = "open" /\ st[b] = "open" /\ reach[a] /\ reach[b])
      => id[a] # id[b]

\* a handle is released at most by its owner (action property)
OnlyOwnerReleases ==
  [][\A i \in Ids : (owner[i] # NoObj /\ owner'[i] = NoObj) =>
        (\/ (st[owner[i]] = "open" /\ st'[owner[i]] = "closed")
         \/ (~fin[owner[i]] /\ fin'[owner[i]]))]_vars
=================================================================================
