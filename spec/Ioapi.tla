--------------------------------- MODULE Ioapi ---------------------------------
(* IOAPI-convention files (C10, C11): the self-describing metadata block m of *)
(* a file f and the invariants the properties state.                          *)
(*   m.nvars, m.varlist (16-character chunks of VAR-LIST, stripped),          *)
(*   m.rawlen (length of VAR-LIST), m.tflag_dates / m.tflag_times (first      *)
(*   variable column of TFLAG), m.nlays/m.nrows/m.ncols, m.vglvls (x1000),    *)
(*   m.sdate/m.stime/m.tstep, m.xorig/m.yorig/m.xcell/m.ycell (integers),     *)
(*   m.times (decoded instants as civil tuples)                               *)
EXTENDS PncCore, Calendar

StdDims == { <<"TSTEP", "LAY", "ROW", "COL">>, <<"TSTEP", "LAY", "PERIM">> }

\* C10: "" when coherent, else the first failing clause
CoherentDiag(f, m) ==
  IF m.nvars # Len(m.varlist) THEN "NVARS differs from the number of names in VAR-LIST"
  ELSE IF m.rawlen # 16 * m.nvars THEN "VAR-LIST is not NVARS fields of 16 characters"
  ELSE IF ~HasDim(f, "VAR") THEN "no VAR dimension"
  ELSE IF DimLen(f, "VAR") # m.nvars THEN "VAR dimension differs from NVARS"
  ELSE IF ~HasVar(f, "TFLAG") THEN "no TFLAG variable"
  ELSE IF VarRec(f, "TFLAG").dims # <<"TSTEP", "VAR", "DATE-TIME">> THEN "TFLAG dimensions"
  ELSE IF VarRec(f, "TFLAG").shape[2] # m.nvars THEN "second axis of TFLAG differs from NVARS"
  ELSE IF \E i \in 1..Len(m.varlist) : ~HasVar(f, m.varlist[i]) THEN "a listed variable does not exist"
  ELSE IF \E i \in 1..Len(m.varlist) : VarRec(f, m.varlist[i]).dims \notin StdDims
       THEN "a listed variable lacks the standard dimensions"
  ELSE IF HasDim(f, "ROW") /\ m.nrows # DimLen(f, "ROW") THEN "NROWS differs from the ROW dimension"
  ELSE IF HasDim(f, "COL") /\ m.ncols # DimLen(f, "COL") THEN "NCOLS differs from the COL dimension"
  ELSE IF HasDim(f, "LAY") /\ m.nlays # DimLen(f, "LAY") THEN "NLAYS differs from the LAY dimension"
  ELSE IF Len(m.vglvls) # m.nlays + 1 THEN "VGLVLS does not have NLAYS + 1 entries"
  ELSE IF Len(m.tflag_dates) >= 1 /\ m.sdate # m.tflag_dates[1] THEN "SDATE differs from the first time flag"
  ELSE IF Len(m.tflag_times) >= 1 /\ m.stime # m.tflag_times[1] THEN "STIME differs from the first time flag"
  ELSE ""
Coherent(f, m) == CoherentDiag(f, m) = ""
\* a file built by hand whose time flags are not materialised yet (attributes
\* set, variables created, no TFLAG): everything else agrees
CoherentSansTflag(f, m) ==
  /\ m.nvars = Len(m.varlist) /\ m.rawlen = 16 * m.nvars
  /\ HasDim(f, "VAR") /\ DimLen(f, "VAR") = m.nvars
  /\ ~HasVar(f, "TFLAG")
  /\ \A i \in 1..Len(m.varlist) : HasVar(f, m.varlist[i]) /\ VarRec(f, m.varlist[i]).dims \in StdDims
  /\ (HasDim(f, "ROW") => m.nrows = DimLen(f, "ROW"))
  /\ (HasDim(f, "COL") => m.ncols = DimLen(f, "COL"))
  /\ (HasDim(f, "LAY") => m.nlays = DimLen(f, "LAY"))
  /\ Len(m.vglvls) = m.nlays + 1

\* a file whose time flags lag behind a variable that was just added through
\* the wrapper's createVariable (NVARS / VAR-LIST / VAR follow at once, TFLAG
\* keeps its old second axis until the next operation): everything else agrees
CoherentLag(f, m) ==
  /\ m.nvars = Len(m.varlist) /\ m.rawlen = 16 * m.nvars
  /\ HasVar(f, "TFLAG") /\ VarRec(f, "TFLAG").dims = <<"TSTEP", "VAR", "DATE-TIME">>
  /\ VarRec(f, "TFLAG").shape[2] # m.nvars
  /\ \A i \in 1..Len(m.varlist) : HasVar(f, m.varlist[i]) /\ VarRec(f, m.varlist[i]).dims \in StdDims
  /\ (HasDim(f, "ROW") => m.nrows = DimLen(f, "ROW"))
  /\ (HasDim(f, "COL") => m.ncols = DimLen(f, "COL"))
  /\ (HasDim(f, "LAY") => m.nlays = DimLen(f, "LAY"))
  /\ Len(m.vglvls) = m.nlays + 1
  /\ (Len(m.tflag_dates) >= 1 => m.sdate = m.tflag_dates[1] /\ m.stime = m.tflag_times[1])

\* IOAPI files always mark the time-step dimension unlimited (C01)
TstepUnlimited(f) == HasDim(f, "TSTEP") => DimRec(f, "TSTEP").u

\* where C10 is not demanded: no listed variable left, or an empty time axis
C10Demanded(f, m) == m.nvars >= 1 /\ HasDim(f, "TSTEP") /\ DimLen(f, "TSTEP") >= 1

\* ----------------------------------------------------------------------- C11
WindowDims == {"ROW", "COL", "LAY", "TSTEP"}
UnitWindow(s) == s.k = "int" \/ (s.k = "slice" /\ (~s.h[3] \/ s.v[3] = 1))
\* a slice call is a "contiguous window" when every selector is an integer or a
\* unit-stride slice on ROW/COL/LAY/TSTEP with a non-empty result
IsWindow(f, a) ==
  /\ Len(a.sels) >= 1
  /\ \A i \in 1..Len(a.sels) :
       /\ a.sels[i].d \in WindowDims /\ HasDim(f, a.sels[i].d)
       /\ UnitWindow(a.sels[i].s)
       /\ Len(SelIdx(DimLen(f, a.sels[i].d), a.sels[i].s)) >= 1
First(f, a, d) == SelIdx(DimLen(f, d), SelOf(a, d))[1]
Count(f, a, d) == Len(SelIdx(DimLen(f, d), SelOf(a, d)))
Selected(a, d) == \E i \in 1..Len(a.sels) : a.sels[i].d = d

FlagDate(c) == c[1] * 1000 + (DayNum("std", c[1], c[2], c[3]) - DaysBeforeYear("std", c[1]) + 1)
FlagTime(c) == c[4] * 10000 + c[5] * 100 + c[6]

\* seconds from civil tuple c1 to c2; a time axis has one step when all its
\* consecutive differences are equal (a file stacked onto itself has none, and
\* then no TSTEP value describes it: the attribute is left undecided)
SecsBetween(c1, c2) ==
  (DayNum("std", c2[1], c2[2], c2[3]) - DayNum("std", c1[1], c1[2], c1[3])) * 86400
  + (c2[4] - c1[4]) * 3600 + (c2[5] - c1[5]) * 60 + (c2[6] - c1[6])
UniformStep(ts) == \A i \in 1..(Len(ts) - 2) : SecsBetween(ts[i], ts[i + 1]) = SecsBetween(ts[i + 1], ts[i + 2])

\* "" when the window keeps geo- and time-referencing, else the failing clause
WindowDiag(f, m, a, g, n) ==
  IF n.xorig # m.xorig + (IF Selected(a, "COL") THEN First(f, a, "COL") * m.xcell ELSE 0)
    THEN "XORIG is not the source origin plus first column index times XCELL"
  ELSE IF n.yorig # m.yorig + (IF Selected(a, "ROW") THEN First(f, a, "ROW") * m.ycell ELSE 0)
    THEN "YORIG is not the source origin plus first row index times YCELL"
  ELSE IF n.xcell # m.xcell \/ n.ycell # m.ycell THEN "cell size changed"
  ELSE IF n.vglvls # (IF Selected(a, "LAY")
                     THEN SubSeq(m.vglvls, First(f, a, "LAY") + 1, First(f, a, "LAY") + Count(f, a, "LAY") + 1)
                     ELSE m.vglvls)
    THEN "VGLVLS is not the matching sub-range of the source level edges"
  ELSE IF n.times # (IF Selected(a, "TSTEP")
                    THEN SubSeq(m.times, First(f, a, "TSTEP") + 1, First(f, a, "TSTEP") + Count(f, a, "TSTEP"))
                    ELSE m.times)
    THEN "decoded times are not the same sub-range of the source's decoded times"
  ELSE IF n.sdate # FlagDate(n.times[1]) \/ n.stime # FlagTime(n.times[1])
    THEN "SDATE/STIME are not the first retained timestamp"
  ELSE IF Len(n.times) >= 2 /\ UniformStep(n.times) /\ SecsBetween(n.times[1], n.times[2]) > 0
          /\ n.tstep # SecToHms(SecsBetween(n.times[1], n.times[2]))
    THEN "TSTEP is not the step between the retained times"
  ELSE ""
=================================================================================
