-------------------------------- MODULE TraceLib --------------------------------
(* Shared machinery of every trace specification (DESIGN.md 4.2).            *)
(* A trace file is ndjson: one JSON object per recorded execution ("trace"),  *)
(* each with a unique "tid" and a sequence "steps".  A trace specification    *)
(* starts one behaviour per trace and consumes one step per transition; every *)
(* comparison goes through Chk so that the first failing clause is printed.   *)
EXTENDS TLC, Json, IOUtils, Sequences, Integers

Traces == ndJsonDeserialize(IOEnv.TRACE_FILE)
NTraces == Len(Traces)

Say(r) == PrintT(ToJson(r))

\* IF, not \/ : inside an action TLC explores both disjuncts of a disjunction.
Chk(tr, l, what, got, exp) ==
  IF got = exp THEN TRUE
  ELSE Say([v |-> "MISMATCH", tid |-> tr.tid, l |-> l, what |-> what,
            got |-> got, exp |-> exp]) /\ FALSE

ChkT(tr, l, what, cond) ==
  IF cond THEN TRUE
  ELSE Say([v |-> "MISMATCH", tid |-> tr.tid, l |-> l, what |-> what]) /\ FALSE

TrAccept(tr) == Say([v |-> "ACCEPT", tid |-> tr.tid])
TrKnown(tr, dev) == Say([v |-> "KNOWN", tid |-> tr.tid, dev |-> dev])
=================================================================================
