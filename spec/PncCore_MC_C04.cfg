SPECIFICATION Spec
INVARIANT Inv_WellFormed
INVARIANT Law_StackSplit
CONSTRAINT EmitConstraint
CHECK_DEADLOCK FALSE
