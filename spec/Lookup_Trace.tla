------------------------------ MODULE Lookup_Trace ------------------------------
(* Trace validation for C16: each trace is one lookup configuration and the   *)
(* observation of val2idx for each probe value (one call per probe).          *)
EXTENDS Lookup, TraceLib

VARIABLES tid, l
tvars == <<tid, l>>
TInit == tid \in 1..NTraces /\ l = 0

TStep ==
  LET tr == Traces[tid]
      cf == [c |-> tr.c, rep |-> tr.rep, e |-> tr.e, method |-> tr.method, clean |-> tr.clean,
             bnd |-> tr.bnd, nan |-> tr.nan]
  IN /\ l = 0 /\ l' = 1 /\ tid' = tid
     /\ ChkT(tr, 0, "configuration: coordinate not strictly monotone", Monotone(tr.c) /\ Len(tr.c) >= 2)
     /\ \A p \in 1..Len(tr.obs) :
          LET o == tr.obs[p] IN
          IF AllowedObs(cf, o.v, o.ob, o.w) THEN TRUE
          ELSE Say([v |-> "MISMATCH", tid |-> tr.tid, l |-> p,
                    what |-> "observation not allowed by the lookup property",
                    value |-> o.v, ob |-> o.ob, warned |-> o.w,
                    nearest |-> Nearest(cf, o.v), cells |-> Cells(cf, o.v), equal |-> Equal(cf, o.v),
                    cfg |-> [c |-> tr.c, e |-> tr.e, rep |-> tr.rep, method |-> tr.method,
                             clean |-> tr.clean, bnd |-> tr.bnd, nan |-> tr.nan]]) /\ FALSE
     \* the receiver is not modified by the query (C05 clause observed here too)
     /\ Chk(tr, 0, "coordinate values after the lookups", tr.c_after, tr.c)
     /\ TrAccept(tr)
TSpec == TInit /\ [][TStep]_tvars
=================================================================================
