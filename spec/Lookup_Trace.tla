------------------------------ MODULE Lookup_Trace ------------------------------
(* Trace validation for C16: each trace is one lookup configuration and the   *)
(* observation of val2idx for each probe value (one call per probe).          *)
(* kind "val": val2idx(value); "time": time2idx(datetime) on a coordinate     *)
(* with CF units; "t2t": the older time2t(datetime, ttype) front-end.  For    *)
(* the datetime kinds the looked-up value is computed here, with the calendar *)
(* of Calendar.tla, from the civil fields of the datetime object passed.      *)
EXTENDS Lookup, TraceLib

Cal == INSTANCE Calendar

VARIABLES tid, l
tvars == <<tid, l>>
TInit == tid \in 1..NTraces /\ l = 0

TStep ==
  LET tr == Traces[tid]
      cf == [c |-> tr.c, rep |-> tr.rep, e |-> tr.e, method |-> tr.method, clean |-> tr.clean,
             bnd |-> tr.bnd, nan |-> tr.nan, rs |-> IF "rs" \in DOMAIN tr THEN tr.rs ELSE 0]
  IN /\ l = 0 /\ l' = 1 /\ tid' = tid
     /\ ChkT(tr, 0, "configuration: coordinate not strictly monotone", Monotone(tr.c) /\ Len(tr.c) >= 2)
     /\ \A p \in 1..Len(tr.obs) :
          LET o == tr.obs[p]
              dn(y, m, d) == Cal!DayNum("std", y, m, d)
              \* datetime front-ends: the value is derived by the specification
              \* from the civil fields of the datetime that was passed
              val == IF tr.kind = "val" THEN o.v ELSE TimeVal(dn, tr.unit, tr.ref, o.civ)
          IN
          IF tr.kind # "val" /\ ~TimeExact(dn, tr.unit, tr.ref, o.civ)
          THEN Say([v |-> "MISMATCH", tid |-> tr.tid, l |-> p,
                    what |-> "generator: datetime probe is not a whole number of units from the reference",
                    civ |-> o.civ]) /\ FALSE
          ELSE IF tr.kind # "val" /\ val # o.v
          THEN Say([v |-> "MISMATCH", tid |-> tr.tid, l |-> p,
                    what |-> "generator: datetime probe does not encode the intended value",
                    civ |-> o.civ, value |-> o.v, derived |-> val]) /\ FALSE
          ELSE IF tr.kind = "t2t"
          THEN (IF AllowedT2t(cf, tr.ttype, val, o.ob) THEN TRUE
                ELSE Say([v |-> "MISMATCH", tid |-> tr.tid, l |-> p,
                    what |-> "time2t observation not allowed by the lookup property",
                    value |-> val, ob |-> o.ob, ttype |-> tr.ttype,
                    nearest |-> Nearest(cf, val), cells |-> Cells(cf, val),
                    cfg |-> [c |-> tr.c, e |-> tr.e, rep |-> tr.rep]]) /\ FALSE)
          ELSE
          IF AllowedObs(cf, val, o.ob, o.w) THEN TRUE
          ELSE Say([v |-> "MISMATCH", tid |-> tr.tid, l |-> p,
                    what |-> "observation not allowed by the lookup property",
                    value |-> o.v, ob |-> o.ob, warned |-> o.w,
                    nearest |-> Nearest(cf, o.v), cells |-> Cells(cf, o.v), equal |-> Equal(cf, o.v),
                    cfg |-> [c |-> tr.c, e |-> tr.e, rep |-> tr.rep, method |-> tr.method,
                             clean |-> tr.clean, bnd |-> tr.bnd, nan |-> tr.nan]]) /\ FALSE
     \* the receiver is not modified by the query (C05 clause observed here too)
     /\ Chk(tr, 0, "coordinate values after the lookups", tr.c_after, tr.c)
     /\ TrAccept(tr)
TSpec == TInit /\ [][TStep]_tvars
=================================================================================
