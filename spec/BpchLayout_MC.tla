------------------------------ MODULE BpchLayout_MC ------------------------------
EXTENDS BpchLayout, Json, IOUtils
T1(nl) == [cat |-> <<"I","J","-","A","V","G","-","$">>, id |-> 1, unit |-> <<"p","p","b","v">>, nl |-> nl, name |-> <<"N","O","x">>, scale2 |-> 1, off |-> 0, intab |-> TRUE]
T2(nl) == [cat |-> <<"I","J","-","A","V","G","-","$">>, id |-> 2, unit |-> <<"p","p","b","v">>, nl |-> nl, name |-> <<"O","x">>, scale2 |-> 0, off |-> 0, intab |-> TRUE]
T3(nl) == [cat |-> <<"A","N","T","H","S","R","C","E">>, id |-> 1, unit |-> <<"k","g">>, nl |-> nl, name |-> <<"N","O","x","a","n">>, scale2 |-> -1, off |-> 100, intab |-> TRUE]
\* a diagnostic of tracer 1 in a category whose offset + id has no line in the
\* tracer table (adjoint-like): the name is the bare tracer's, the data are not scaled
T4(nl) == [cat |-> <<"I","J","-","A","D","J","-","$">>, id |-> 1, unit |-> <<"u","n","i","t","l","e","s","s">>, nl |-> nl, name |-> <<"N","O","x">>, scale2 |-> 0, off |-> 1000, intab |-> FALSE]
\* tracer lists that are also generated as cumulative averages
CumLists == { <<T1(3)>>, <<T1(2), T2(1)>> }
TracerLists == { <<T1(3)>>, <<T1(2), T2(1)>>, <<T2(1), T1(3)>>, <<T1(3), T2(2), T3(1)>>, <<T3(1), T1(1)>>, <<T1(1), T3(2), T2(3)>>,
                 <<T1(2), T4(2)>>, <<T4(1), T2(1), T1(3)>> }
\* window origins <<i0 = j0, l0>>: global, nested grid, level-range output (only l0 > 1)
ConfigsAll == { [tr |-> tl, ni |-> g[1], nj |-> g[2], i0 |-> o[1], j0 |-> o[1], l0 |-> o[2], nt |-> nt, tau |-> 140256, cum |-> cm] :
              tl \in TracerLists, g \in { <<1, 1>>, <<2, 1>>, <<2, 3>>, <<3, 2>> }, o \in { <<1, 1>>, <<3, 1>>, <<1, 4>> }, nt \in 1..3,
              cm \in BOOLEAN }
Configs == {x \in ConfigsAll : x.cum => x.tr \in CumLists}
\* c: configuration; n: cut offset (walked only when PNC_BPCH_CUTS = 1); z: cached sizes
VARIABLES c, n, z
vars == <<c, n, z>>
Cuts == IOEnv.PNC_BPCH_CUTS = "1"
Init == c \in Configs /\ n = 0 /\ z = [pos |-> PosSeq(c), fb |-> BpchBytes(c), bb |-> BlockSize(c)]
Next == Cuts /\ n < z.fb /\ n' = n + 1 /\ UNCHANGED <<c, z>>
Spec == Init /\ [][Next]_vars
InvHeaderSizes == n > 0 \/ HeaderSizes(c)
InvWalk == n > 0 \/ WalkFindsBlock(c)
InvTiles == n > 0 \/ (z.fb = 136 + c.nt * z.bb /\ z.pos[Len(c.tr) + 1] = 136 + z.bb)
\* truncation (C14): with all tracers of a block discovered only complete blocks are exposed
Open == BpchOpenZ(z.pos, Len(c.tr), n)
Complete == IF n < 136 THEN 0 ELSE (n - 136) \div z.bb
BpchNeverFabricates == (Open.k = "Steps" /\ Open.K = Len(c.tr)) => Open.n <= Complete
BpchFullFileReadsAll == n = z.fb => Open = [k |-> "Steps", n |-> c.nt, K |-> Len(c.tr)]
\* ... and a step with fewer tracers is exposed exactly when the file ends on a
\* tracer boundary inside the first block (the format has no tracer count: C14_K3)
BpchPartialBlock == (Open.k = "Steps" /\ Open.K < Len(c.tr)) => (n = z.pos[Open.K + 1] /\ Open.n = 1)
EmitConstraint == IF IOEnv.PNC_EMIT = "1" /\ n = 0
  THEN PrintT(ToJson([cfg |-> c, recs |-> BpchLayout(c), bytes |-> z.fb, block |-> z.bb, pos |-> z.pos]))
  ELSE TRUE
=================================================================================
