------------------------------ MODULE BpchLayout_MC ------------------------------
EXTENDS BpchLayout, Json, IOUtils
T1(nl) == [cat |-> <<"I","J","-","A","V","G","-","$">>, id |-> 1, unit |-> <<"p","p","b","v">>, nl |-> nl, name |-> <<"N","O","x">>, scale2 |-> 1, off |-> 0]
T2(nl) == [cat |-> <<"I","J","-","A","V","G","-","$">>, id |-> 2, unit |-> <<"p","p","b","v">>, nl |-> nl, name |-> <<"O","x">>, scale2 |-> 0, off |-> 0]
T3(nl) == [cat |-> <<"A","N","T","H","S","R","C","E">>, id |-> 1, unit |-> <<"k","g">>, nl |-> nl, name |-> <<"N","O","x","a","n">>, scale2 |-> -1, off |-> 100]
TracerLists == { <<T1(3)>>, <<T1(2), T2(1)>>, <<T2(1), T1(3)>>, <<T1(3), T2(2), T3(1)>>, <<T3(1), T1(1)>>, <<T1(1), T3(2), T2(3)>> }
Configs == { [tr |-> tl, ni |-> g[1], nj |-> g[2], i0 |-> o, j0 |-> o, nt |-> nt, tau |-> 140256] :
              tl \in TracerLists, g \in { <<1, 1>>, <<2, 1>>, <<2, 3>>, <<3, 2>> }, o \in {1, 3}, nt \in 1..3 }
VARIABLE c
Init == c \in Configs
Next == UNCHANGED c
Spec == Init /\ [][Next]_c
InvHeaderSizes == HeaderSizes(c)
InvWalk == WalkFindsBlock(c)
InvTiles == BpchBytes(c) = 136 + c.nt * BlockSize(c)
EmitConstraint == IF IOEnv.PNC_EMIT = "1"
  THEN PrintT(ToJson([cfg |-> c, recs |-> BpchLayout(c), bytes |-> BpchBytes(c), block |-> BlockSize(c)]))
  ELSE TRUE
=================================================================================
