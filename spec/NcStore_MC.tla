------------------------------- MODULE NcStore_MC -------------------------------
(* Every fill-attribute configuration of a masked variable: with the specified *)
(* data fill the mask survives the save/reopen cycle; with the deviation      *)
(* (copied fill_value attribute first) TLC exhibits the losing configuration. *)
EXTENDS NcStore, Json, IOUtils
VARIABLE c
Init == c \in [mv : {0, 1, 2}, fv : {0, 1, 2}, ufv : {0, 1, 2}]
Next == UNCHANGED c
Spec == Init /\ [][Next]_c
InvMaskSurvives == MaskSurvives(c, IF IOEnv.PNC_DEV = "1" THEN DataFillDev(c) ELSE DataFillSpec(c))
EmitConstraint == IF IOEnv.PNC_EMIT = "1" THEN PrintT(ToJson(c)) ELSE TRUE
=================================================================================
