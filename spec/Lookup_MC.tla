------------------------------- MODULE Lookup_MC -------------------------------
(* Enumerates every lookup configuration over a small lattice, checks that    *)
(* the allowed-observation sets of Lookup are sane (the property is           *)
(* satisfiable and sharp) and emits each configuration for replay on val2idx. *)
EXTENDS Lookup, Json, IOUtils, SequencesExt

Lattice == {0, 4, 8, 12, 16, 20, 24}
MaxLen == atoi(IOEnv.PNC_LK_MAXLEN)
Asc == UNION {{s \in [1..n -> Lattice] : \A i \in 1..(n - 1) : s[i] < s[i + 1]} : n \in 2..MaxLen}
Rev(s) == [i \in 1..Len(s) |-> s[Len(s) + 1 - i]]
Coords == Asc \cup {Rev(s) : s \in Asc}

Configs ==
  { [c |-> c, rep |-> r, e |-> MidEdges(c), method |-> m, clean |-> cl, bnd |-> b, nan |-> nn] :
      c \in Coords, r \in {"none", "edges", "nx2"}, m \in {"nearest", "bounds", "exact"},
      cl \in {"none", "mask"}, b \in {"ignore", "warn", "error"}, nn \in BOOLEAN }

VARIABLE cf
Init == cf \in {x \in Configs : ~(x.nan /\ x.clean = "none")}
Next == UNCHANGED cf
Spec == Init /\ [][Next]_cf

Idx(i) == [k |-> "idx", i |-> i]
Masked == [k |-> "masked", i |-> 0]
Raised == [k |-> "raised", i |-> 0]
AllObs == {Idx(i) : i \in 0..(N(cf) - 1)} \cup {Masked, Raised}

\* the property can always be satisfied: some observation is allowed
Satisfiable == \A v \in Probes(cf) : \E ob \in AllObs : \E w \in BOOLEAN : AllowedObs(cf, v, ob, w)
\* ... and it is sharp: for a value strictly inside one cell exactly one index is allowed
SharpInside == \A i \in 1..N(cf) :
  LET v == cf.c[i] IN
  cf.method \in {"nearest", "bounds", "exact"} =>
     {ob \in AllObs : AllowedObs(cf, v, ob, FALSE)} = {Idx(i - 1)}
\* an interior edge allows exactly the two adjacent cells (bounds)
EdgesTwoCells == cf.method = "bounds" => \A i \in 2..N(cf) :
  {ob \in AllObs : AllowedObs(cf, cf.e[i], ob, FALSE)} = {Idx(i - 2), Idx(i - 1)}
\* far outside with rejection requested: only a raise
FarOutRejected == cf.bnd = "error" =>
  {ob \in AllObs : AllowedObs(cf, MaxOf(cf.e) + 40, ob, FALSE)} = {Raised}
Cells_Tile == \A v \in Probes(cf) : InEdges(cf, v) => Cells(cf, v) # {}

\* ---- datetime front-end time2t: satisfiable, sharp at the centres, never an
\* index outside 0..n-1 (the upper outer edge belongs to the last cell)
TTypes == {"nearest", "bounds", "bounds_close"}
T2tSatisfiable == \A tt \in TTypes : \A v \in Probes(cf) : \E ob \in AllObs : AllowedT2t(cf, tt, v, ob)
T2tSharpInside == \A tt \in TTypes : \A i \in 1..N(cf) :
  {ob \in AllObs : AllowedT2t(cf, tt, cf.c[i], ob)} = {Idx(i - 1)}
T2tOuterEdges == \A v \in {MinOf(cf.e), MaxOf(cf.e)} :
  {ob \in AllObs : AllowedT2t(cf, "bounds", v, ob)} = {Idx(EndIdx(cf, v))}
\* the datetime -> value conversion inverts "reference + value units" for a
\* day-number function that is a bijection (here: days as integers)
TimeValInverts == \A u \in {"days", "hours", "minutes", "seconds"} : \A v \in Probes(cf) :
  LET dn(y, m, d) == d
      secs == v * UnitSecL(u)
      civ == <<0, 0, 10 + (secs \div 86400), (secs % 86400) \div 3600, (secs % 3600) \div 60, secs % 60, 0>>
      ref == <<0, 0, 10, 0, 0, 0, 0>>
  IN TimeExact(dn, u, ref, civ) /\ TimeVal(dn, u, ref, civ) = v

Emit == PrintT(ToJson([c |-> cf.c, rep |-> cf.rep, e |-> cf.e, method |-> cf.method, clean |-> cf.clean,
                       bnd |-> cf.bnd, nan |-> cf.nan, probes |-> SetToSeq(Probes(cf))]))
EmitConstraint == IF IOEnv.PNC_EMIT = "1" THEN Emit ELSE TRUE
=================================================================================
