SPECIFICATION Spec
INVARIANT Satisfiable
INVARIANT SharpInside
INVARIANT EdgesTwoCells
INVARIANT FarOutRejected
INVARIANT Cells_Tile
INVARIANT T2tSatisfiable
INVARIANT T2tSharpInside
INVARIANT T2tOuterEdges
INVARIANT TimeValInverts
CONSTRAINT EmitConstraint
CHECK_DEADLOCK FALSE
