SPECIFICATION Spec
INVARIANT Satisfiable
INVARIANT SharpInside
INVARIANT EdgesTwoCells
INVARIANT FarOutRejected
INVARIANT Cells_Tile
CONSTRAINT EmitConstraint
CHECK_DEADLOCK FALSE
