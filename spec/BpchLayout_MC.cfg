SPECIFICATION Spec
INVARIANT InvHeaderSizes
INVARIANT InvWalk
INVARIANT InvTiles
CONSTRAINT EmitConstraint
CHECK_DEADLOCK FALSE
INVARIANT BpchNeverFabricates
INVARIANT BpchFullFileReadsAll
INVARIANT BpchPartialBlock
