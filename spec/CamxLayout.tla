------------------------------- MODULE CamxLayout -------------------------------
(* C08/C09/C13/C14: the published layouts of the CAMx binary formats as a      *)
(* grammar: a file is a sequence of Fortran unformatted records, a record a    *)
(* sequence of typed fields.  Layout(c) is the "independent codec": the        *)
(* harness serialises it to bytes (reference encoder) and walks bytes back     *)
(* into words that are matched against it (reference decoder).                 *)
(*                                                                             *)
(* configuration c:                                                            *)
(*   c.fmt   "uamiv" | "temperature" | "height_pressure" | "one3d" | "wind"    *)
(*           | "cloud_rain" | "lateral_boundary"                               *)
(*   c.name  file NAME as a sequence of characters (uamiv: AVERAGE, ...)       *)
(*   c.spc   species / variable names, each a sequence of characters           *)
(*   c.nx, c.ny, c.nz, c.nt ; c.year, c.jjj, c.hour : start of the first step  *)
(* field kinds: [t |-> "i", v]  32-bit integer ; [t |-> "f", v] float with an   *)
(* integer value ; [t |-> "c", v] one character stored in a 4-byte word        *)
(* (char + 3 blanks) ; [t |-> "s", v] raw characters, 4 per word.              *)
(* All numbers are 4-byte big-endian.                                          *)
EXTENDS Calendar, FiniteSets

I(v) == [t |-> "i", v |-> v]
F(v) == [t |-> "f", v |-> v]
C(ch) == [t |-> "c", v |-> ch]
\* a name of n characters, one per word, blank padded
A4(chars, n) == [k \in 1..n |-> C(IF k <= Len(chars) THEN chars[k] ELSE " ")]

\* the data token of species s, step t, layer k, row j, column i (all 1-based);
\* distinct for indices <= 4 and exactly representable in float32
Token(s, t, k, j, i) == ((((s * 5 + t) * 5 + k) * 5 + j) * 5 + i)
Grid(c, s, t, k) == [q \in 1..(c.ny * c.nx) |->
                       F(Token(s, t, k, ((q - 1) \div c.nx) + 1, ((q - 1) % c.nx) + 1))]

\* ------------------------------------------------------------------- times
\* step t (1-based) begins at start + (t-1) steps and ends one step later; a
\* step is c.dth whole hours (one hour where the configuration names none)
Dth(c) == IF "dth" \in DOMAIN c THEN c.dth ELSE 1
StartInst(c) == <<DaysBeforeYear("std", c.year) + c.jjj - 1, c.hour * 3600, 0>>
BeginOf(c, t) == AddSec(StartInst(c), (t - 1) * Dth(c) * 3600)
EndOf(c, t) == AddSec(StartInst(c), t * Dth(c) * 3600)
\* CAMx header date: two-digit year * 1000 + day of year
YYJJJ(inst) == (YearOf("std", inst[1]) % 100) * 1000 + DayOfYear("std", inst[1])
HourOf(inst) == inst[2] \div 3600
\* four-digit IOAPI flag of the same day
YYYYJJJ(inst) == YearOf("std", inst[1]) * 1000 + DayOfYear("std", inst[1])
\* the instant denoted by a (YYJJJ, hour) pair with the 70 pivot; hour 24 of a
\* day is hour 0 of the next
PivotYear(yy) == IF yy >= 70 THEN 1900 + yy ELSE 2000 + yy
InstOf(yyjjj, hour) == NormInst(DaysBeforeYear("std", PivotYear(yyjjj \div 1000)) + (yyjjj % 1000) - 1, hour * 3600, 0)
\* two-digit years can only express 1970..2069
TimesExpressible(c) == c.year >= 1970 /\ YearOf("std", EndOf(c, c.nt)[1]) <= 2069

\* ------------------------------------------------------------------- uamiv
\* a (date, hour) pair of words denoting instant x: any spelling of the instant is
\* admissible (hour 24 of a day = hour 0 of the next)
D(x) == [t |-> "date", v |-> x]
Hr(x) == [t |-> "hour", v |-> x]
\* the end of an interval (may be spelled as hour 24 of the previous day)
DE(x) == [t |-> "edate", v |-> x]
HE(x) == [t |-> "ehour", v |-> x]
\* older two-dimensional EMISSIONS files carry 0 layers in the grid header
\* (c.nz0) although every step holds one layer of data
HdrNz(c) == IF "nz0" \in DOMAIN c /\ c.nz0 THEN 0 ELSE c.nz
UamivHeader(c) ==
  << A4(c.name, 10) \o A4(c.note, 60) \o
       << I(c.itzon), I(Len(c.spc)), D(BeginOf(c, 1)), Hr(BeginOf(c, 1)),
          DE(EndOf(c, c.nt)), HE(EndOf(c, c.nt)) >>,
     << F(c.plon), F(c.plat), I(c.iutm), F(c.xorg), F(c.yorg), F(c.delx), F(c.dely),
        I(c.nx), I(c.ny), I(HdrNz(c)), I(c.iproj), I(c.istag), F(c.tlat1), F(c.tlat2), F(0) >>,
     << I(1), I(1), I(c.nx), I(c.ny) >>,
     [q \in 1..(10 * Len(c.spc)) |-> A4(c.spc[((q - 1) \div 10) + 1], 10)[((q - 1) % 10) + 1]] >>

RECURSIVE FlattenSeq(_)
FlattenSeq(ss) == IF Len(ss) = 0 THEN <<>> ELSE Head(ss) \o FlattenSeq(Tail(ss))

UamivStep(c, t) ==
  << << D(BeginOf(c, t)), Hr(BeginOf(c, t)), DE(EndOf(c, t)), HE(EndOf(c, t)) >> >>
  \o FlattenSeq([s \in 1..Len(c.spc) |->
        [k \in 1..c.nz |-> << I(1) >> \o A4(c.spc[s], 10) \o Grid(c, s, t, k)]])

\* -------------------------------------------------- meteorological formats
\* no file header; every record starts with the time (HHMM as a float) and the
\* date (YYJJJ) of the step's beginning, followed by one horizontal slab
OneVarFmts == {"one3d", "humidity", "vertical_diffusivity"}
MetFmts == OneVarFmts \cup {"temperature", "height_pressure", "wind"}
MetRec(c, t, s, k) == << F(HourOf(BeginOf(c, t)) * 100), I(YYJJJ(BeginOf(c, t))) >> \o Grid(c, s, t, k)
MetStep(c, t) ==
  CASE c.fmt \in OneVarFmts -> [k \in 1..c.nz |-> MetRec(c, t, 1, k)]
    \* surface temperature (layer index 0 in the token), then the layers
    [] c.fmt = "temperature" -> << MetRec(c, t, 1, 0) >> \o [k \in 1..c.nz |-> MetRec(c, t, 2, k)]
    \* per layer: height, then pressure
    [] c.fmt = "height_pressure" -> FlattenSeq([k \in 1..c.nz |-> << MetRec(c, t, 1, k), MetRec(c, t, 2, k) >>])
    \* wind: one time record (hour, date and, in the newer layout, the stagger
    \* flag), per layer the u slab then the v slab (no time stamp in the slabs),
    \* and a one-word dummy record that closes the step
    [] c.fmt = "wind" ->
         << << F(HourOf(BeginOf(c, t)) * 100), I(YYJJJ(BeginOf(c, t))) >> \o (IF c.hdr3 THEN << I(c.lstag) >> ELSE <<>>) >>
         \o FlattenSeq([k \in 1..c.nz |-> << Grid(c, 1, t, k), Grid(c, 2, t, k) >>])
         \o << << I(0) >> >>

\* ----------------------------------------------------------- cloud/rain
\* header record: a description (raw characters, four per word) and the grid;
\* per step a time record (HHMM as a float, YYJJJ) and, layer by layer, one
\* slab per variable (5 variables since CAMx 4.3, 3 before)
S4(str) == [t |-> "s", v |-> str]
CloudNames(c) == IF c.nv = 5 THEN <<"CLOUD", "RAIN", "SNOW", "GRAUPEL", "COD">> ELSE <<"CLOUD", "PRECIP", "COD">>
CloudHeader(c) == << << S4("CAMx"), S4(" CLD") >> \o << I(c.nx), I(c.ny), I(c.nz) >> >>
CloudStep(c, t) ==
  << << F(HourOf(BeginOf(c, t)) * 100), I(YYJJJ(BeginOf(c, t))) >> >>
  \o FlattenSeq([k \in 1..c.nz |-> [v \in 1..c.nv |-> Grid(c, v, t, k)]])

\* ---------------------------------------------------------------- land use
\* time independent: (new style: a key record, then) the land-use fractions of
\* c.nz categories as one record [category][row][column]; optionally further
\* two-dimensional records (new style: each with its key record)
\* c.newstyle, c.nopt (0..2 optional records), c.nz categories (11 or 26), c.nt = 1
LuMainKey(c) == IF c.nz = 26 THEN <<"LUCA", "T26 ">> ELSE <<"LUCA", "T11 ">>
LuOptKeys(c) == IF c.nopt = 2 THEN << <<"LAI ", "    ">>, <<"TOPO", "    ">> >>
                ELSE IF c.nopt = 1 THEN << <<"TOPO", "    ">> >> ELSE <<>>
LuFland(c) == [q \in 1..(c.nz * c.ny * c.nx) |->
                 F(Token(1, 1, ((q - 1) \div (c.ny * c.nx)) + 1, (((q - 1) \div c.nx) % c.ny) + 1, ((q - 1) % c.nx) + 1))]
LuOpt(c, o) == [q \in 1..(c.ny * c.nx) |-> F(Token(o + 1, 1, 0, ((q - 1) \div c.nx) + 1, ((q - 1) % c.nx) + 1))]
LanduseLayout(c) ==
  (IF c.newstyle THEN << << S4(LuMainKey(c)[1]), S4(LuMainKey(c)[2]) >> >> ELSE <<>>) \o << LuFland(c) >> \o
  FlattenSeq([o \in 1..c.nopt |->
     (IF c.newstyle THEN << << S4(LuOptKeys(c)[o][1]), S4(LuOptKeys(c)[o][2]) >> >> ELSE <<>>) \o << LuOpt(c, o) >>])
\* the variables the reader presents
LuNames(c) == IF c.newstyle
              THEN << IF c.nz = 26 THEN "LUCAT26" ELSE "LUCAT11" >> \o
                   (IF c.nopt = 2 THEN <<"LAI", "TOPO">> ELSE IF c.nopt = 1 THEN <<"TOPO">> ELSE <<>>)
              ELSE <<"FLAND">> \o (IF c.nopt = 1 THEN <<"TOPO">> ELSE <<>>)

\* ------------------------------------------------------- lateral boundary
\* the four header records of the gridded format (NAME = BOUNDARY), four edge
\* definition records (west, east, south, north), and per step a time record
\* followed by one record per species and edge: 1, the species name, the edge
\* number and the edge's cells with the layer index running fastest
EdgeCells(c, e) == IF e <= 2 THEN c.ny ELSE c.nx
EdgeIndex(c, e) == CASE e = 1 -> 2 [] e = 2 -> c.nx - 1 [] e = 3 -> 2 [] e = 4 -> c.ny - 1
EdgeDef(c, e) ==
  << I(1), I(e), I(EdgeCells(c, e)) >> \o
  [q \in 1..(4 * EdgeCells(c, e)) |->
     LET cell == ((q - 1) \div 4) + 1 IN
     I(IF (q - 1) % 4 = 0 /\ cell # 1 /\ cell # EdgeCells(c, e) THEN EdgeIndex(c, e) ELSE 0)]
EdgeData(c, s, t, e) ==
  << I(1) >> \o A4(c.spc[s], 10) \o << I(e) >> \o
  [q \in 1..(EdgeCells(c, e) * c.nz) |-> F(Token(s, t, ((q - 1) % c.nz) + 1, ((q - 1) \div c.nz) + 1, e))]
LatHeader(c) == UamivHeader(c) \o [e \in 1..4 |-> EdgeDef(c, e)]
LatStep(c, t) ==
  << << D(BeginOf(c, t)), Hr(BeginOf(c, t)), DE(EndOf(c, t)), HE(EndOf(c, t)) >> >>
  \o FlattenSeq([s \in 1..Len(c.spc) |-> [e \in 1..4 |-> EdgeData(c, s, t, e)]])
EdgeNames == <<"WEST", "EAST", "SOUTH", "NORTH">>

\* the variables a reader of the format presents: name, token species, surface?
FmtVars(c) ==
  CASE c.fmt = "one3d" -> << [name |-> "UNKNOWN", s |-> 1, surf |-> FALSE, edge |-> 0] >>
    [] c.fmt = "humidity" -> << [name |-> "HUM", s |-> 1, surf |-> FALSE, edge |-> 0] >>
    [] c.fmt = "vertical_diffusivity" -> << [name |-> "KV", s |-> 1, surf |-> FALSE, edge |-> 0] >>
    [] c.fmt = "temperature" -> << [name |-> "SURFTEMP", s |-> 1, surf |-> TRUE, edge |-> 0], [name |-> "AIRTEMP", s |-> 2, surf |-> FALSE, edge |-> 0] >>
    [] c.fmt = "height_pressure" -> << [name |-> "HGHT", s |-> 1, surf |-> FALSE, edge |-> 0], [name |-> "PRES", s |-> 2, surf |-> FALSE, edge |-> 0] >>
    [] c.fmt = "cloud_rain" -> [v \in 1..c.nv |-> [name |-> CloudNames(c)[v], s |-> v, surf |-> FALSE, edge |-> 0]]
    [] c.fmt = "landuse" -> [q \in 1..(1 + c.nopt) |->
         [name |-> LuNames(c)[q], s |-> q, surf |-> (q > 1), edge |-> 0]]
    [] c.fmt = "wind" -> << [name |-> "U", s |-> 1, surf |-> FALSE, edge |-> 0], [name |-> "V", s |-> 2, surf |-> FALSE, edge |-> 0] >>

\* compact form for large grids: the data slab is one field [t |-> "g", s, tt, k]
\* that the serialiser expands with the token rule (ny * nx floats)
UamivStepC(c, t) ==
  << << D(BeginOf(c, t)), Hr(BeginOf(c, t)), DE(EndOf(c, t)), HE(EndOf(c, t)) >> >>
  \o FlattenSeq([s \in 1..Len(c.spc) |->
        [k \in 1..c.nz |-> << I(1) >> \o A4(c.spc[s], 10) \o << [t |-> "g", s |-> s, tt |-> t, k |-> k] >>]])
LayoutC(c) == UamivHeader(c) \o FlattenSeq([t \in 1..c.nt |-> UamivStepC(c, t)])
\* sizes of the uamiv layout in closed form (checked against the grammar by
\* CamxLayout_MC on every small configuration)
UamivHeaderBytesA(c) == (76 * 4 + 8) + (15 * 4 + 8) + (4 * 4 + 8) + (40 * Len(c.spc) + 8)
UamivRecBytesA(c) == (11 + c.nx * c.ny) * 4 + 8
UamivBlockBytesA(c) == 24 + Len(c.spc) * c.nz * UamivRecBytesA(c)
UamivFileBytesA(c) == UamivHeaderBytesA(c) + c.nt * UamivBlockBytesA(c)
CompleteStepsA(c, n) == IF n < UamivHeaderBytesA(c) THEN 0 ELSE (n - UamivHeaderBytesA(c)) \div UamivBlockBytesA(c)

Layout(c) ==
  CASE c.fmt = "uamiv" -> UamivHeader(c) \o FlattenSeq([t \in 1..c.nt |-> UamivStep(c, t)])
    [] c.fmt \in MetFmts -> FlattenSeq([t \in 1..c.nt |-> MetStep(c, t)])
    [] c.fmt = "cloud_rain" -> CloudHeader(c) \o FlattenSeq([t \in 1..c.nt |-> CloudStep(c, t)])
    [] c.fmt = "lateral_boundary" -> LatHeader(c) \o FlattenSeq([t \in 1..c.nt |-> LatStep(c, t)])
    [] c.fmt = "landuse" -> LanduseLayout(c)

\* ------------------------------------------------------------ record algebra
RecBytes(r) == 4 * Len(r) + 8                  \* payload + two length markers
RECURSIVE SumLens(_)
SumLens(rs) == IF Len(rs) = 0 THEN 0 ELSE RecBytes(Head(rs)) + SumLens(Tail(rs))
FileBytes(c) == SumLens(Layout(c))
\* offset of the first byte after the first n records
Offset(c, n) == SumLens(SubSeq(Layout(c), 1, n))
NHeader(c) == CASE c.fmt = "uamiv" -> 4 [] c.fmt \in MetFmts -> 0 [] c.fmt = "cloud_rain" -> 1 [] c.fmt = "lateral_boundary" -> 8 [] c.fmt = "landuse" -> 0
RecsPerStep(c) == CASE c.fmt = "uamiv" -> 1 + Len(c.spc) * c.nz
                    [] c.fmt \in OneVarFmts -> c.nz
                    [] c.fmt = "temperature" -> c.nz + 1
                    [] c.fmt = "height_pressure" -> 2 * c.nz
                    [] c.fmt = "wind" -> 2 * c.nz + 2
                    [] c.fmt = "cloud_rain" -> 1 + c.nz * c.nv
                    [] c.fmt = "lateral_boundary" -> 1 + 4 * Len(c.spc)
                    [] c.fmt = "landuse" -> (IF c.newstyle THEN 2 ELSE 1) * (1 + c.nopt)
\* number of complete time steps contained in the first n bytes
CompleteSteps(c, n) ==
  LET hb == Offset(c, NHeader(c))
      bb == Offset(c, NHeader(c) + RecsPerStep(c)) - hb
  IN IF n < hb THEN 0 ELSE (n - hb) \div bb

\* ---- the memory-mapped wind reader's decision procedure on the first n bytes
\* the layer count is found by walking the records of the first step until the
\* size changes (the dummy record); the walk needs the dummy's leading marker
WindDummyOffset(cc) == Offset(cc, 1 + 2 * cc.nz)
WindStepBytes(cc) == Offset(cc, 2 * cc.nz + 2)
\* the legacy rule: a running total that starts at the dummy length IN WORDS and
\* grows by the step size WITHOUT the dummy record, compared with the length in bytes
RECURSIVE WindLegacyLoop(_, _, _, _)
WindLegacyLoop(total, times, inc, len) ==
  IF total < len THEN WindLegacyLoop(total + inc, times + 1, inc, len) ELSE times - 1
WindOpenZ(wd, sb, nn, legacy) ==
  IF nn < wd + 4 THEN [k |-> "Err", n |-> 0]        \* first step cannot be walked
  ELSE IF nn % 4 # 0 THEN [k |-> "Err", n |-> 0]     \* not a whole number of words
  ELSE LET times == IF legacy THEN WindLegacyLoop(3, 0, sb - 12, nn) ELSE nn \div sb
       IN IF times <= 0 THEN [k |-> "Err", n |-> 0] ELSE [k |-> "Steps", n |-> times]
WindOpenF(cc, nn, legacy) == WindOpenZ(WindDummyOffset(cc), WindStepBytes(cc), nn, legacy)

\* ---- the cloud/rain reader's decision procedure on the first n bytes
\* the header gives the grid; the number of variables is not stored: the reader
\* tries 5, then 3, and takes the first for which the data section is a whole
\* number of steps
CloudHeaderBytes(cc) == RecBytes(CloudHeader(cc)[1])
CloudStepBytesNV(cc, nv) == nv * cc.nz * (cc.nx * cc.ny + 2) * 4 + 16
CloudOpenF(cc, nn) ==
  IF nn <= CloudHeaderBytes(cc) THEN [k |-> "Err", n |-> 0, nv |-> 0]
  ELSE LET d == nn - CloudHeaderBytes(cc) IN
       IF d % CloudStepBytesNV(cc, 5) = 0 THEN [k |-> "Steps", n |-> d \div CloudStepBytesNV(cc, 5), nv |-> 5]
       ELSE IF d % CloudStepBytesNV(cc, 3) = 0 THEN [k |-> "Steps", n |-> d \div CloudStepBytesNV(cc, 3), nv |-> 3]
       ELSE [k |-> "Err", n |-> 0, nv |-> 0]
\* ... and, when the first variable is read, compares the two length markers
\* of every record it expects (time records and slabs of nv variables).  The
\* word at offset w (in 4-byte words after the header) of the TRUE file: the
\* value of a length marker, or 0 for content (hour, date, data: never equal
\* to the word it is paired with)
CloudStepWords(cc, nv) == 4 + nv * cc.nz * (cc.nx * cc.ny + 2)
CloudTrueMark(cc, w) ==
  LET r == w % CloudStepWords(cc, cc.nv) cells == cc.nx * cc.ny IN
  IF r \in {0, 3} THEN 8
  ELSE IF r < 4 THEN 0
  ELSE IF ((r - 4) % (cells + 2)) \in {0, cells + 1} THEN cells * 4 ELSE 0
CloudPairOK(cc, a, b) == CloudTrueMark(cc, a) # 0 /\ CloudTrueMark(cc, a) = CloudTrueMark(cc, b)
\* reading the first k steps' worth of bytes as steps of nv variables
CloudMarkersOK(cc, nv, k) ==
  LET sw == CloudStepWords(cc, nv) cells == cc.nx * cc.ny IN
  \A j \in 0..(k - 1) :
     /\ CloudPairOK(cc, j * sw, j * sw + 3)
     /\ \A r \in 0..(nv * cc.nz - 1) :
          CloudPairOK(cc, j * sw + 4 + r * (cells + 2), j * sw + 4 + r * (cells + 2) + cells + 1)
\* the outcome of opening AND reading the first n bytes
CloudOpenM(cc, nn) ==
  LET o == CloudOpenF(cc, nn) IN
  IF o.k = "Steps" /\ ~CloudMarkersOK(cc, o.nv, o.n) THEN [k |-> "Err", n |-> 0, nv |-> 0] ELSE o
\* a complete file that the rule reads with the other variable count
CloudAmbiguous(cc) == CloudOpenF(cc, CloudHeaderBytes(cc) + cc.nt * CloudStepBytesNV(cc, cc.nv)).nv # cc.nv
\* a prefix that the rule reads with the other variable count
\* (size AND markers fit: format-inherent, finding C14_K2)
CloudAliased(cc, nn) == LET o == CloudOpenM(cc, nn) IN o.k = "Steps" /\ o.nv # cc.nv
CloudSizeAliased(cc, nn) == LET o == CloudOpenF(cc, nn) IN o.k = "Steps" /\ o.nv # cc.nv

\* ------------------------------------- matching decoded words against a record
\* a decoded word w = [i : as int32, f : as float32 when a small integer else
\*                     a large sentinel, c : its first byte as a character when
\*                     the other three are blanks]
WordMatches(fld, w) ==
  CASE fld.t = "i" -> w.i = fld.v
    [] fld.t = "f" -> w.fok /\ w.f = fld.v
    [] fld.t = "c" -> w.cok /\ w.c = fld.v
    [] fld.t = "s" -> w.s = fld.v
    [] OTHER -> TRUE                      \* date/hour pairs are matched together
PairMatches(exp, words, k) ==
  exp[k].t \in {"date", "edate"} =>
     (words[k + 1].fok /\ words[k].i >= 0 /\ words[k + 1].f >= 0 /\ words[k + 1].f <= 24
        \* YYJJJ names a day that exists (99366 is not a spelling of 00001)
        /\ (words[k].i % 1000) >= 1
        /\ (words[k].i % 1000) <= DaysInYear("std", PivotYear(words[k].i \div 1000))
        /\ InstOf(words[k].i, words[k + 1].f) = exp[k].v)
\* the concrete words the reference encoder writes for a field (the end of an
\* interval at midnight as hour 24 of the same day when c.h24, else hour 0 of
\* the next day)
ConcreteWord(fld, h24) ==
  CASE fld.t = "date" -> I(YYJJJ(fld.v))
    [] fld.t = "hour" -> F(HourOf(fld.v))
    [] fld.t = "edate" -> IF h24 /\ fld.v[2] = 0 THEN I(YYJJJ(<<fld.v[1] - 1, 0, 0>>)) ELSE I(YYJJJ(fld.v))
    [] fld.t = "ehour" -> IF h24 /\ fld.v[2] = 0 THEN F(24) ELSE F(HourOf(fld.v))
    [] OTHER -> fld
ConcreteOf(lay, h24) == [r \in 1..Len(lay) |-> LET rec == lay[r] IN [k \in 1..Len(rec) |-> ConcreteWord(rec[k], h24)]]
Concrete(c) == LET lay == Layout(c) IN ConcreteOf(lay, c.h24)
ConcreteC(c) == LET lay == LayoutC(c) IN ConcreteOf(lay, c.h24)
\* "" or the first discrepancy of record r (index ri) against the layout
RecordDiag(layout, ri, rec) ==
  IF ri > Len(layout) THEN "more records than the layout has"
  ELSE LET exp == layout[ri] IN
    IF rec.lead # rec.trail THEN "leading and trailing length markers differ"
    ELSE IF rec.lead # 4 * Len(exp) THEN "record length differs from the layout"
    ELSE IF Len(rec.words) # Len(exp) THEN "payload words"
    ELSE IF \E k \in 1..Len(exp) : ~WordMatches(exp[k], rec.words[k])
         THEN "field " \o ToString(CHOOSE k \in 1..Len(exp) : ~WordMatches(exp[k], rec.words[k])) \o " differs from the layout"
    ELSE IF \E k \in 1..Len(exp) : ~PairMatches(exp, rec.words, k)
         THEN "time flags (field " \o ToString(CHOOSE k \in 1..Len(exp) : ~PairMatches(exp, rec.words, k)) \o ") do not denote the instant of the layout"
    ELSE ""
=================================================================================
