SPECIFICATION Spec
INVARIANT Inv_WellFormed
INVARIANT Law_IdentitySlice
INVARIANT Law_SingleListOrtho
CONSTRAINT EmitConstraint
CHECK_DEADLOCK FALSE
