SPECIFICATION Spec
INVARIANT RoundTrip
INVARIANT Successor
INVARIANT Julian
INVARIANT Hms
INVARIANT YearLengths
INVARIANT AddUnitsLaw
CHECK_DEADLOCK FALSE
