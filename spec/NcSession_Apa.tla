------------------------------ MODULE NcSession_Apa ------------------------------
(* Unbounded safety of NcSession with Apalache: HistoryFree is implied by an     *)
(* inductive invariant, for histories of ANY length (MaxSaves is taken as a      *)
(* symbolic natural number by IndInit / the step check).  Run by                 *)
(*   apalache-mc check --init=IndInit --inv=IndInv --length=1 NcSession_Apa.tla  *)
(*   apalache-mc check --init=SInit --inv=IndInv --length=0 NcSession_Apa.tla    *)
(* (tools/apalache_ncsession.sh).                                                *)
EXTENDS Sequences, FiniteSets, Naturals

VARIABLES
  \* @type: Seq(Set(Str));
  hist,
  \* @type: Set(Str);
  mem,
  \* @type: Set(Str);
  last

DimNamesU == {"t", "y"}
StickyUnlimited == FALSE
MaxSaves == 1000000

INSTANCE NcSession

TypeOK == /\ mem \subseteq DimNamesU /\ last \subseteq DimNamesU
          /\ \A i \in DOMAIN hist : hist[i] \subseteq DimNamesU
\* the writer remembers nothing, and what was stored last is the last file's own
IndInv == /\ TypeOK
          /\ mem = {}
          /\ (Len(hist) = 0 => last = {})
          /\ (Len(hist) > 0 => last = hist[Len(hist)])
\* any state satisfying the invariant (histories of up to 3 saves stand for "any":
\* the step touches only the last element)
P == SUBSET DimNamesU
\* @type: Set(Seq(Set(Str)));
Hists == {<<>>} \cup {<<a>> : a \in P} \cup {<<a, b>> : a \in P, b \in P} \cup {<<a, b, c>> : a \in P, b \in P, c \in P}
IndInit == /\ hist \in Hists
           /\ mem \in SUBSET DimNamesU /\ last \in SUBSET DimNamesU
           /\ IndInv
=================================================================================
