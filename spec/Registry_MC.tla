------------------------------ MODULE Registry_MC ------------------------------
(* Bounded model of Registry over the measured environment; emits every      *)
(* history of length MaxHist as a JSON line for replay against pncopen.       *)
EXTENDS Registry, Json, IOUtils

Env == JsonDeserialize(IOEnv.PNC_ENV)

EnvFiles == {Env.files[i] : i \in 1..Len(Env.files)}
EnvReg0 == Env.reg0
EnvClassOf == Env.classof
EnvAccept == [f \in EnvFiles |-> {Env.accept[f][i] : i \in 1..Len(Env.accept[f])}]
EnvExt == Env.ext
EnvMaxHist == Env.maxhist
EnvAliasing == Env.aliasing

Emit == IF Len(hist) = MaxHist
        THEN PrintT(ToJson([hist |-> hist,
                            sel |-> [i \in 1..Len(hist) |-> Sel0(hist[i])]]))
        ELSE TRUE
EmitConstraint == IF Env.emit THEN Emit ELSE TRUE
=================================================================================
