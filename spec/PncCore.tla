-------------------------------- MODULE PncCore --------------------------------
(* The PseudoNetCDF abstract machine: a heap of files and the public          *)
(* transformation operations (C01-C06).                                       *)
(*                                                                            *)
(* File == [dims  : Seq([n : name, len : Nat, u : BOOLEAN]),                  *)
(*          vars  : Seq(Var), attrs : Seq([k, v, ok]), coords : Seq(name)]     *)
(* Var  == [name, dims : Seq(name), shape : Seq(Nat), dt, masked : BOOLEAN,    *)
(*          enc : "num" | other, vals, mask : Seq(BOOLEAN),                   *)
(*          attrs : Seq([k, v, ok])]                                           *)
(* For every operation X, Exp_X(f, args) is the result the properties demand  *)
(* and Dom_X(f, args) the documented domain (DESIGN.md Appendix B).           *)
EXTENDS PncValues

\* ------------------------------------------------------------------ accessors
DimNames(f) == [i \in 1..Len(f.dims) |-> f.dims[i].n]
HasDim(f, d) == \E i \in 1..Len(f.dims) : f.dims[i].n = d
DimRec(f, d) == f.dims[CHOOSE i \in 1..Len(f.dims) : f.dims[i].n = d]
DimLen(f, d) == DimRec(f, d).len
VarNames(f) == [i \in 1..Len(f.vars) |-> f.vars[i].name]
HasVar(f, k) == \E i \in 1..Len(f.vars) : f.vars[i].name = k
VarRec(f, k) == f.vars[CHOOSE i \in 1..Len(f.vars) : f.vars[i].name = k]
AxisOf(v, d) == CHOOSE i \in 1..Len(v.dims) : v.dims[i] = d
VarHasDim(v, d) == Has(v.dims, d)
IsCoord(f, k) == Has(f.coords, k)
ArrOf(v) == Arr(v.shape, v.vals, v.mask)
WithArr(v, a) == [v EXCEPT !.shape = a.shape, !.vals = a.vals, !.mask = a.mask]
NoDup(s) == \A i, j \in 1..Len(s) : s[i] = s[j] => i = j
NumTypes == {"f", "d", "i", "l", "h", "q"}

\* --------------------------------------------------------- C01 well-formedness
\* returns "" when well-formed, otherwise the first failing clause
WFVar(f, v) ==
  IF \E i \in 1..Len(v.dims) : ~HasDim(f, v.dims[i]) THEN "variable " \o v.name \o ": dimension not in file"
  ELSE IF Len(v.shape) # Len(v.dims) THEN "variable " \o v.name \o ": rank differs from number of dimensions"
  ELSE IF \E i \in 1..Len(v.dims) : v.shape[i] # DimLen(f, v.dims[i]) THEN "variable " \o v.name \o ": shape differs from dimension lengths"
  ELSE IF v.enc # "none" /\ (Len(v.vals) # ProdSeq(v.shape) \/ Len(v.mask) # ProdSeq(v.shape)) THEN "variable " \o v.name \o ": cell count"
  ELSE IF \E i \in 1..Len(v.attrs) : ~v.attrs[i].ok THEN "variable " \o v.name \o ": listed attribute not retrievable"
  ELSE IF ~NoDup([i \in 1..Len(v.attrs) |-> v.attrs[i].k]) THEN "variable " \o v.name \o ": duplicate attribute"
  ELSE ""

WFDiag(f) ==
  IF ~NoDup(DimNames(f)) THEN "duplicate dimension"
  ELSE IF ~NoDup(VarNames(f)) THEN "duplicate variable"
  ELSE IF \E i \in 1..Len(f.attrs) : ~f.attrs[i].ok THEN "listed global attribute not retrievable"
  ELSE IF ~NoDup([i \in 1..Len(f.attrs) |-> f.attrs[i].k]) THEN "duplicate global attribute"
  ELSE IF \E i \in 1..Len(f.vars) : WFVar(f, f.vars[i]) # ""
       THEN WFVar(f, f.vars[CHOOSE i \in 1..Len(f.vars) : WFVar(f, f.vars[i]) # ""])
  ELSE ""
WellFormed(f) == WFDiag(f) = ""

\* surviving dimensions keep their unlimited flag
UnlimitedKept(f, g) ==
  \A i \in 1..Len(g.dims) : HasDim(f, g.dims[i].n) => g.dims[i].u = DimRec(f, g.dims[i].n).u

\* ------------------------------------------------------------- comparison
\* mode "full": everything a structural operation carries; "val": data only
ValsEq(g, e) == /\ (g.enc = e.enc \/ Len(e.vals) = 0)
                /\ Len(g.vals) = Len(e.vals)
                /\ \A k \in 1..Len(e.vals) : e.mask[k] \/ g.vals[k] = e.vals[k]

ArrDiff(g, a) ==
  IF g.shape # a.shape THEN "shape"
  ELSE IF g.mask # a.mask THEN "mask"
  ELSE IF ~(\A k \in 1..Len(a.vals) : a.mask[k] \/ g.vals[k] = a.vals[k]) THEN "values"
  ELSE ""

\* (_FillValue is the same encoding on a disk-backed variable)
NoFV(attrs) == {attrs[i] : i \in {j \in 1..Len(attrs) : attrs[j].k \notin {"fill_value", "_FillValue"}}}
\* A float result is logged as the nearest fraction with denominator <= 100;
\* that identifies the exact value only if its denominator is <= 100 and, for
\* float32 data, its magnitude is small enough for the rounding error to stay
\* below the spacing of such fractions.  Other cells cannot be decided.
\* (cells of integer variables are logged exactly, whatever their magnitude)
RepCell(x, dt) == \/ (dt \in IntTypes /\ x.d = 1)
                  \/ /\ x.d <= 100 /\ AbsI(x.n) <= 1000000
                     /\ (dt \notin {"d"} \cup IntTypes => AbsI(x.n) <= 2000 * x.d)
AllRep(a, dt) == \A k \in 1..Len(a.vals) : a.mask[k] \/ RepCell(a.vals[k], dt)
VarDiff(g, e, mode) ==
  IF g.dims # e.dims THEN "dimensions"
  ELSE IF "free" \in DOMAIN e THEN (IF g.shape # e.shape THEN "shape" ELSE "")
  ELSE IF "alts" \in DOMAIN e
       THEN (IF \E a \in e.alts : g.shape = a.shape /\ ~AllRep(a, g.dt) THEN ""
             ELSE IF g.enc # "num" THEN "encoding (not numeric)"
             ELSE IF \E a \in e.alts : ArrDiff(g, a) = "" THEN ""
             ELSE "no admissible evaluation order matches: " \o ArrDiff(g, CHOOSE a \in e.alts : TRUE))
  ELSE IF g.shape # e.shape THEN "shape"
  ELSE IF mode = "val" /\ e.enc = "num" /\ ~AllRep(e, g.dt) THEN ""
  ELSE IF "freecells" \in DOMAIN e
       THEN (IF g.enc # e.enc /\ Len(e.mask) > 0 THEN "encoding"
             ELSE IF \E k \in 1..Len(e.mask) : ~e.freecells[k] /\ g.mask[k] # e.mask[k] THEN "mask"
             ELSE IF \E k \in 1..Len(e.mask) : ~e.freecells[k] /\ ~e.mask[k] /\ g.vals[k] # e.vals[k] THEN "values"
             ELSE "")
  ELSE IF g.mask # e.mask THEN "mask"
  \* (an array without cells has no encoding to compare)
  ELSE IF g.enc # e.enc /\ Len(e.mask) > 0 THEN "encoding"
  ELSE IF ~ValsEq(g, e) THEN "values"
  ELSE IF mode \in {"full", "fullfv"} /\ g.dt # e.dt THEN "dtype"
  \* the fill_value attribute is the library's encoding of "this variable is
  \* masked": on a masked result it is not compared
  ELSE IF mode \in {"full", "fullfv"} /\ ~g.masked /\ SeqSet(g.attrs) # SeqSet(e.attrs) THEN "attributes"
  ELSE IF mode \in {"full", "fullfv"} /\ g.masked /\ NoFV(g.attrs) # NoFV(e.attrs) THEN "attributes"
  ELSE ""

DimSet(f) == {f.dims[i] : i \in 1..Len(f.dims)}

\* returns "" or a description of the first difference.
\* dims and variables are compared as maps (order is not part of C01-C06)
FileDiff(g, e, mode) ==
  IF DimSet(g) # DimSet(e) THEN "dimensions (name, length, unlimited)"
  ELSE IF SeqSet(VarNames(g)) # SeqSet(VarNames(e)) THEN "variable names"
  ELSE IF \E k \in SeqSet(VarNames(e)) : VarDiff(VarRec(g, k), VarRec(e, k), mode) # ""
       THEN LET k == CHOOSE k \in SeqSet(VarNames(e)) : VarDiff(VarRec(g, k), VarRec(e, k), mode) # ""
            IN "variable " \o k \o ": " \o VarDiff(VarRec(g, k), VarRec(e, k), mode)
  ELSE IF mode \in {"full", "fullfv"} /\ SeqSet(g.attrs) # SeqSet(e.attrs) THEN "global attributes"
  ELSE ""

\* ======================================================================= copy
Dom_copy(f, a) == TRUE
Exp_copy(f, a) == f

\* ====================================================================== slice
\* a.sels : Seq([d : dim, s : selector]) in keyword order; a.newdim : name
SelOf(a, d) == IF \E i \in 1..Len(a.sels) : a.sels[i].d = d
               THEN a.sels[CHOOSE i \in 1..Len(a.sels) : a.sels[i].d = d].s
               ELSE FullSlice
ListDims(a) == {a.sels[i].d : i \in {j \in 1..Len(a.sels) : a.sels[j].s.k = "list"}}
MultiList(a) == Cardinality(ListDims(a)) > 1
ListLen(a) == LET d == CHOOSE d \in ListDims(a) : TRUE IN Len(SelOf(a, d).v)

Dom_slice(f, a) ==
  /\ NoDup([i \in 1..Len(a.sels) |-> a.sels[i].d])
  /\ \A i \in 1..Len(a.sels) : HasDim(f, a.sels[i].d) /\ SelInDomain(DimLen(f, a.sels[i].d), a.sels[i].s)
  \* (a boolean index array is used on its own: with index lists numpy's
  \* broadcasting rules would apply)
  /\ (\E i \in 1..Len(a.sels) : a.sels[i].s.k = "bool") => ListDims(a) = {}
  /\ MultiList(a) => /\ \A d \in ListDims(a) : Len(SelOf(a, d).v) = ListLen(a)
                     /\ ~HasDim(f, a.newdim)
  \* a coordinate variable decides the new length: it must be 1-D on its own dimension
  /\ \A i \in 1..Len(a.sels) : HasVar(f, a.sels[i].d) => VarRec(f, a.sels[i].d).dims = <<a.sels[i].d>>

SliceVar(a, v) ==
  LET r == Len(v.dims)
      sels == [ax \in 1..r |-> SelOf(a, v.dims[ax])]
      A == {ax \in 1..r : v.dims[ax] \in ListDims(a)}
  IN IF MultiList(a) /\ Cardinality(A) > 1
     THEN LET z == Zip(ArrOf(v), sels, A)
              nd == [j \in 1..(Len(z.keep) + 1) |->
                       IF j < z.c THEN v.dims[z.keep[j]]
                       ELSE IF j = z.c THEN a.newdim ELSE v.dims[z.keep[j - 1]]]
          IN [WithArr(v, z.arr) EXCEPT !.dims = nd]
     ELSE WithArr(v, Ortho(ArrOf(v), sels))

Exp_slice(f, a) ==
  LET nd == [i \in 1..Len(f.dims) |->
               [f.dims[i] EXCEPT !.len = Len(SelIdx(f.dims[i].len, SelOf(a, f.dims[i].n)))]]
  IN [f EXCEPT !.dims = IF MultiList(a)
                        THEN Append(nd, [n |-> a.newdim, len |-> ListLen(a), u |-> FALSE])
                        ELSE nd,
               !.vars = [i \in 1..Len(f.vars) |-> SliceVar(a, f.vars[i])]]

\* ====================================================================== apply
\* a.funcs : Seq([d : dim, f : name, kind : "reducer" | "callable"]) keyword order
FuncOf(a, d) == a.funcs[CHOOSE i \in 1..Len(a.funcs) : a.funcs[i].d = d]
FuncDims(a) == {a.funcs[i].d : i \in 1..Len(a.funcs)}
OutLen(fn, n) == IF fn.kind = "reducer" THEN 1 ELSE Fun1dLen(fn.f, n)

Dom_apply(f, a) ==
  /\ Len(a.funcs) >= 1
  /\ NoDup([i \in 1..Len(a.funcs) |-> a.funcs[i].d])
  /\ \A i \in 1..Len(a.funcs) :
       /\ HasDim(f, a.funcs[i].d)
       /\ DimLen(f, a.funcs[i].d) >= 1
       /\ a.funcs[i].kind = "reducer" => a.funcs[i].f \in Reducers
       /\ HasVar(f, a.funcs[i].d) => VarRec(f, a.funcs[i].d).dims = <<a.funcs[i].d>>
  \* numeric data only; a 1-D function needs non-empty input and output
  /\ \A i \in 1..Len(f.vars) :
       (\E d \in FuncDims(a) : VarHasDim(f.vars[i], d)) =>
          \* (a variable may use a named dimension twice, e.g. an averaging kernel
          \* AK(time, level, level): the function then runs along both axes)
          /\ f.vars[i].enc = "num"
          /\ ((\E j \in 1..Len(a.funcs) : a.funcs[j].kind = "callable") => ProdSeq(f.vars[i].shape) >= 1)
  /\ \A i \in 1..Len(a.funcs) :
       a.funcs[i].kind = "callable" => Fun1dLen(a.funcs[i].f, DimLen(f, a.funcs[i].d)) >= 1

\* functions that only select / reorder elements carry every cell with its mask
\* (and its value, finite or not) to the new position
SelFuns == {"rev", "sub2", "first"}
SelIdx1d(f, n) == CASE f = "rev" -> [j \in 1..n |-> n + 1 - j]
                    [] f = "sub2" -> [j \in 1..((n + 1) \div 2) |-> 2 * j - 1]
                    [] f = "first" -> <<1>>
ApplyAxis(arr, ax, fn) ==
  IF fn.kind = "reducer"
  THEN AlongAxis(arr, ax, 1, LAMBDA vals, mask : Reduce(fn.f, vals, mask))
  ELSE IF fn.f \in SelFuns
  THEN AlongAxis(arr, ax, Fun1dLen(fn.f, arr.shape[ax]),
                 LAMBDA vals, mask : LET ix == SelIdx1d(fn.f, Len(vals)) IN
                                     [vals |-> [j \in 1..Len(ix) |-> vals[ix[j]]],
                                      mask |-> [j \in 1..Len(ix) |-> mask[ix[j]]]])
  ELSE AlongAxis(arr, ax, Fun1dLen(fn.f, arr.shape[ax]),
                 LAMBDA vals, mask : [vals |-> Fun1d(fn.f, vals),
                                      mask |-> [j \in 1..Fun1dLen(fn.f, Len(vals)) |-> FALSE]])

RECURSIVE ApplyOrder(_, _, _, _)
\* apply the functions to the axes in the given order (a sequence of axes)
ApplyOrder(arr, v, a, order) ==
  IF Len(order) = 0 THEN arr
  ELSE ApplyOrder(ApplyAxis(arr, Head(order), FuncOf(a, v.dims[Head(order)])), v, a, Tail(order))

RECURSIVE Perms(_)
Perms(S) == IF S = {} THEN {<<>>}
            ELSE UNION {{<<x>> \o p : p \in Perms(S \ {x})} : x \in S}

ApplyVar(a, v) ==
  LET axes == {ax \in 1..Len(v.dims) : v.dims[ax] \in FuncDims(a)}
      anyCallable == \E ax \in axes : FuncOf(a, v.dims[ax]).kind = "callable" /\ FuncOf(a, v.dims[ax]).f \notin SelFuns
      nshape == [ax \in 1..Len(v.dims) |->
                   IF ax \in axes THEN OutLen(FuncOf(a, v.dims[ax]), v.shape[ax]) ELSE v.shape[ax]]
  IN IF axes = {} THEN v
     \* a callable sees the underlying data of a masked variable: cells computed
     \* from masked inputs are not constrained by the property
     ELSE IF anyCallable /\ (\E k \in 1..Len(v.mask) : v.mask[k])
     THEN [v EXCEPT !.shape = nshape] @@ [free |-> TRUE]
     \* a single-precision variance (standard deviation) is not exact enough to
     \* identify its rational value: that variable is left open, the others are decided
     ELSE IF v.dt = "f" /\ (\E ax \in axes : FuncOf(a, v.dims[ax]).f = "var")
     THEN [v EXCEPT !.shape = nshape] @@ [free |-> TRUE]
     ELSE [v EXCEPT !.shape = nshape] @@
          [alts |-> {ApplyOrder(ArrOf(v), v, a, p) : p \in Perms(axes)}]

Exp_apply(f, a) ==
  [f EXCEPT !.dims = [i \in 1..Len(f.dims) |->
                        IF f.dims[i].n \in FuncDims(a)
                        THEN [f.dims[i] EXCEPT !.len = OutLen(FuncOf(a, f.dims[i].n), f.dims[i].len)]
                        ELSE f.dims[i]],
            !.vars = [i \in 1..Len(f.vars) |-> ApplyVar(a, f.vars[i])]]

\* the stack dimension open_mfdataset chooses when none is named: the first
\* unlimited dimension, else the first dimension with a conventional time name
TimeDimNames == {"TSTEP", "time", "Time", "t"}
DefaultStackDim(f) ==
  LET us == {i \in 1..Len(f.dims) : f.dims[i].u}
      ts == {i \in 1..Len(f.dims) : f.dims[i].n \in TimeDimNames}
  IN IF us # {} THEN f.dims[CHOOSE i \in us : \A j \in us : i <= j].n
     ELSE IF ts # {} THEN f.dims[CHOOSE i \in ts : \A j \in ts : i <= j].n
     ELSE ""

\* ================================================= "fuzzy" dimension addressing
\* The string forms of the command line (slice_dim, reduce_dim) address the named
\* dimension AND its numbered variants: every dimension whose name is the given
\* name followed by one or more digits (layer -> layer1, layer47; not layer2m).
\* a.fz = [names : dimension names of the file, chars : their characters].
IsDigitCh(ch) == ch \in {"0", "1", "2", "3", "4", "5", "6", "7", "8", "9"}
FzChars(a, name) == a.fz.chars[CHOOSE i \in 1..Len(a.fz.names) : a.fz.names[i] = name]
Numbered(base, key) == /\ Len(key) > Len(base) /\ SubSeq(key, 1, Len(base)) = base
                       /\ \A i \in (Len(base) + 1)..Len(key) : IsDigitCh(key[i])
FzKnown(f, a, d) == (\E i \in 1..Len(a.fz.names) : a.fz.names[i] = d)
                    /\ \A i \in 1..Len(f.dims) : \E j \in 1..Len(a.fz.names) : a.fz.names[j] = f.dims[i].n
\* the addressed dimensions, in the order of the file
FuzzyTargets(f, a, d) ==
  IF ~FzKnown(f, a, d) THEN <<d>>
  ELSE SelectSeq([i \in 1..Len(f.dims) |-> f.dims[i].n],
                 LAMBDA k : k = d \/ Numbered(FzChars(a, d), FzChars(a, k)))
FzApply(f, a) ==
  IF "fz" \notin DOMAIN a \/ Len(a.funcs) # 1 THEN a
  ELSE LET T == FuzzyTargets(f, a, a.funcs[1].d) IN
       [a EXCEPT !.funcs = [i \in 1..Len(T) |-> [a.funcs[1] EXCEPT !.d = T[i]]]]
FzSlice(f, a) ==
  IF "fz" \notin DOMAIN a \/ Len(a.sels) # 1 THEN a
  ELSE LET T == FuzzyTargets(f, a, a.sels[1].d) IN
       [a EXCEPT !.sels = [i \in 1..Len(T) |-> [a.sels[1] EXCEPT !.d = T[i]]]]

\* ====================================================================== stack
\* fs : sequence of files (receiver first); a.dim : name
Dom_stack(fs, a) ==
  LET f == fs[1] IN
  /\ HasDim(f, a.dim)
  /\ \A i \in 1..Len(f.vars) : NoDup(f.vars[i].dims)
  /\ \A j \in 2..Len(fs) :
       /\ SeqSet(DimNames(fs[j])) = SeqSet(DimNames(f))
       /\ \A d \in SeqSet(DimNames(f)) : d # a.dim => DimLen(fs[j], d) = DimLen(f, d)
       /\ SeqSet(VarNames(fs[j])) = SeqSet(VarNames(f))
       /\ \A k \in SeqSet(VarNames(f)) :
            /\ VarRec(fs[j], k).dims = VarRec(f, k).dims
            /\ VarRec(fs[j], k).enc = VarRec(f, k).enc
            /\ VarRec(fs[j], k).dt = VarRec(f, k).dt

RECURSIVE ConcatArr(_, _)
\* concatenate a non-empty sequence of arrays along axis ax
ConcatArr(arrs, ax) ==
  IF Len(arrs) = 1 THEN arrs[1]
  ELSE LET x == arrs[1]
           y == ConcatArr(Tail(arrs), ax)
           nshape == [b \in 1..Len(x.shape) |-> IF b = ax THEN x.shape[b] + y.shape[b] ELSE x.shape[b]]
           n == ProdSeq(nshape)
           pick(k) == LET u == Unravel(nshape, k - 1)
                      IN IF u[ax] < x.shape[ax]
                         THEN [s |-> 1, i |-> 1 + Ravel(x.shape, u)]
                         ELSE [s |-> 2, i |-> 1 + Ravel(y.shape, [b \in 1..Len(u) |-> IF b = ax THEN u[b] - x.shape[ax] ELSE u[b]])]
       IN Arr(nshape,
              [k \in 1..n |-> IF pick(k).s = 1 THEN x.vals[pick(k).i] ELSE y.vals[pick(k).i]],
              [k \in 1..n |-> IF pick(k).s = 1 THEN x.mask[pick(k).i] ELSE y.mask[pick(k).i]])

Exp_stack(fs, a) ==
  LET f == fs[1]
      total == SumSeq([j \in 1..Len(fs) |-> DimLen(fs[j], a.dim)])
  IN [f EXCEPT !.dims = [i \in 1..Len(f.dims) |->
                           IF f.dims[i].n = a.dim THEN [f.dims[i] EXCEPT !.len = total] ELSE f.dims[i]],
               !.vars = [i \in 1..Len(f.vars) |->
                           LET v == f.vars[i] IN
                           IF VarHasDim(v, a.dim)
                           THEN WithArr(v, ConcatArr([j \in 1..Len(fs) |-> ArrOf(VarRec(fs[j], v.name))],
                                                     AxisOf(v, a.dim)))
                           ELSE v]]

\* ===================================================================== subset
\* a.keys : Seq(name), a.exclude : BOOLEAN
Dom_subset(f, a) == \A i \in 1..Len(a.keys) : HasVar(f, a.keys[i])
Exp_subset(f, a) ==
  LET want == IF a.exclude THEN SeqSet(VarNames(f)) \ SeqSet(a.keys) ELSE SeqSet(a.keys)
      keep == want \cup {k \in SeqSet(f.coords) : HasVar(f, k)}
  IN [f EXCEPT !.vars = SelectSeq(f.vars, LAMBDA v : v.name \in keep)]

\* ===================================================================== rename
Dom_renamevar(f, a) == HasVar(f, a.old) /\ ~HasVar(f, a.new)
Exp_renamevar(f, a) ==
  [f EXCEPT !.vars = [i \in 1..Len(f.vars) |->
                        IF f.vars[i].name = a.old THEN [f.vars[i] EXCEPT !.name = a.new] ELSE f.vars[i]]]

Dom_renamedim(f, a) == HasDim(f, a.old) /\ ~HasDim(f, a.new)
Exp_renamedim(f, a) ==
  [f EXCEPT !.dims = [i \in 1..Len(f.dims) |->
                        IF f.dims[i].n = a.old THEN [f.dims[i] EXCEPT !.n = a.new] ELSE f.dims[i]],
            !.vars = [i \in 1..Len(f.vars) |->
                        [f.vars[i] EXCEPT !.dims = [j \in 1..Len(f.vars[i].dims) |->
                                                      IF f.vars[i].dims[j] = a.old THEN a.new ELSE f.vars[i].dims[j]]]]]

\* renameDimensions(**{old: new, ...}) : a.pairs = Seq([old, new]), simultaneous
RenMap(a, n) == IF \E q \in 1..Len(a.pairs) : a.pairs[q].old = n
                THEN a.pairs[CHOOSE q \in 1..Len(a.pairs) : a.pairs[q].old = n].new ELSE n
Dom_renamedims(f, a) ==
  /\ Len(a.pairs) >= 1
  /\ \A q \in 1..Len(a.pairs) : HasDim(f, a.pairs[q].old) /\ ~HasDim(f, a.pairs[q].new)
  /\ \A q1, q2 \in 1..Len(a.pairs) : q1 # q2 => (a.pairs[q1].old # a.pairs[q2].old /\ a.pairs[q1].new # a.pairs[q2].new)
Exp_renamedims(f, a) ==
  [f EXCEPT !.dims = [i \in 1..Len(f.dims) |-> [f.dims[i] EXCEPT !.n = RenMap(a, f.dims[i].n)]],
            !.vars = [i \in 1..Len(f.vars) |->
                        [f.vars[i] EXCEPT !.dims = [j \in 1..Len(f.vars[i].dims) |-> RenMap(a, f.vars[i].dims[j])]]]]

\* ============================================================ removeSingleton
\* a.h : a dimension is named; a.d : its name
Dom_rmsingle(f, a) == TRUE
Exp_rmsingle(f, a) ==
  LET gone == {f.dims[i].n : i \in {j \in 1..Len(f.dims) : f.dims[j].len = 1 /\ (~a.h \/ f.dims[j].n = a.d)}}
      fix(v) == LET keep == SelectSeq([ax \in 1..Len(v.dims) |-> ax], LAMBDA ax : v.dims[ax] \notin gone)
                IN [v EXCEPT !.dims = [j \in 1..Len(keep) |-> v.dims[keep[j]]],
                             !.shape = [j \in 1..Len(keep) |-> v.shape[keep[j]]]]
  IN [f EXCEPT !.dims = SelectSeq(f.dims, LAMBDA d : d.n \notin gone),
               !.vars = [i \in 1..Len(f.vars) |-> fix(f.vars[i])]]

\* ============================================================ insertDimension
\* a.d name, a.len, a.newonly, a.multionly, a.pos \in {"none","before","after"}, a.ref
Dom_insertdim(f, a) == a.len >= 1 /\ (HasDim(f, a.d) => DimLen(f, a.d) = a.len)
InsertVar(a, v) ==
  LET skip == \/ (a.newonly /\ VarHasDim(v, a.d))
              \/ (a.multionly /\ Len(v.dims) = 1)
              \/ (a.pos # "none" /\ ~VarHasDim(v, a.ref))
      bi == IF a.pos = "before" THEN AxisOf(v, a.ref) - 1
            ELSE IF a.pos = "after" THEN AxisOf(v, a.ref) ELSE 0      \* 0-based insert position
      r == Len(v.dims)
      ndims == [j \in 1..(r + 1) |-> IF j <= bi THEN v.dims[j] ELSE IF j = bi + 1 THEN a.d ELSE v.dims[j - 1]]
      nshape == [j \in 1..(r + 1) |-> IF j <= bi THEN v.shape[j] ELSE IF j = bi + 1 THEN a.len ELSE v.shape[j - 1]]
      n == ProdSeq(nshape)
      src(k) == LET u == Unravel(nshape, k - 1)
                IN 1 + Ravel(v.shape, [b \in 1..r |-> IF b <= bi THEN u[b] ELSE u[b + 1]])
  IN IF skip THEN v
     ELSE [v EXCEPT !.dims = ndims, !.shape = nshape,
                    !.vals = [k \in 1..n |-> v.vals[src(k)]],
                    !.mask = [k \in 1..n |-> v.mask[src(k)]]]
Exp_insertdim(f, a) ==
  [f EXCEPT !.dims = IF HasDim(f, a.d) THEN f.dims ELSE Append(f.dims, [n |-> a.d, len |-> a.len, u |-> FALSE]),
            !.vars = [i \in 1..Len(f.vars) |-> InsertVar(a, f.vars[i])]]

\* =========================================================== reorderDimensions
\* a.old, a.new : sequences of dimension names, new a permutation of old
Dom_reorder(f, a) == /\ SeqSet(a.old) = SeqSet(a.new) /\ NoDup(a.new) /\ NoDup(a.old)
                     /\ \A i \in 1..Len(a.new) : HasDim(f, a.new[i])
                     \* the docstring speaks of "dimension names in existing order": a variable
                     \* that has any of the named dimensions must have all of its dimensions named
                     /\ \A i \in 1..Len(f.vars) :
                          (\E d \in SeqSet(a.new) : VarHasDim(f.vars[i], d)) =>
                             SeqSet(f.vars[i].dims) \subseteq SeqSet(a.new) /\ NoDup(f.vars[i].dims)
\* the property fixes only the relative order of the named dimensions; the
\* variable's new dimension tuple nd (a permutation of v.dims) is taken from the
\* observation and the data must be the corresponding transposition
ReorderOK(a, v, nd) ==
  LET named == SelectSeq(a.new, LAMBDA d : VarHasDim(v, d))
  IN /\ Len(nd) = Len(v.dims) /\ SeqSet(nd) = SeqSet(v.dims) /\ NoDup(nd)
     /\ SelectSeq(nd, LAMBDA d : Has(named, d)) = named
ReorderVarTo(v, nd) ==
  LET r == Len(v.dims)
      perm == [j \in 1..r |-> AxisOf(v, nd[j])]                 \* new axis j <- old axis
      nshape == [j \in 1..r |-> v.shape[perm[j]]]
      n == ProdSeq(nshape)
      src(k) == LET u == Unravel(nshape, k - 1)
                IN 1 + Ravel(v.shape, [b \in 1..r |-> u[CHOOSE j \in 1..r : perm[j] = b]])
  IN [v EXCEPT !.dims = nd, !.shape = nshape,
               !.vals = [k \in 1..n |-> v.vals[src(k)]],
               !.mask = [k \in 1..n |-> v.mask[src(k)]]]
\* g : the observed result (supplies each variable's dimension order)
Exp_reorder(f, a, g) ==
  [f EXCEPT !.vars = [i \in 1..Len(f.vars) |->
      LET v == f.vars[i] IN
      IF HasVar(g, v.name) /\ ReorderOK(a, v, VarRec(g, v.name).dims)
      THEN ReorderVarTo(v, VarRec(g, v.name).dims)
      ELSE [v EXCEPT !.dims = <<"<not an admissible reordering>">>]]]

\* ======================================================================= mask
\* a.p : Seq([k : predicate name, v : Int]) ; a.where : [h, shape, bits] ;
\* a.usedims : [h, v] ; a.coords : BOOLEAN
MaskPredNames == {"less", "less_equal", "greater", "greater_equal", "values", "equal"}
PredHolds(p, x) ==
  CASE p.k = "less"          -> RLt(x, RInt(p.v))
    [] p.k = "less_equal"    -> RLe(x, RInt(p.v))
    [] p.k = "greater"       -> RLt(RInt(p.v), x)
    [] p.k = "greater_equal" -> RLe(RInt(p.v), x)
    [] p.k = "values"        -> x = RInt(p.v)
    [] p.k = "equal"         -> x = RInt(p.v)
Dom_mask(f, a) ==
  /\ \A i \in 1..Len(a.p) : a.p[i].k \in MaskPredNames
  /\ NoDup([i \in 1..Len(a.p) |-> a.p[i].k])
  /\ \A i \in 1..Len(f.vars) : f.vars[i].enc = "num"
  /\ a.where.h => Len(a.where.bits) = ProdSeq(a.where.shape)
WhereApplies(a, v) ==
  a.where.h /\ (IF a.usedims.h THEN a.usedims.v = v.dims /\ a.where.shape = v.shape
                ELSE a.where.shape = v.shape)
MaskVar(f, a, v) ==
  IF IsCoord(f, v.name) /\ ~a.coords THEN v
  ELSE [v EXCEPT !.mask = [k \in 1..Len(v.mask) |->
          \/ v.mask[k]
          \/ (WhereApplies(a, v) /\ a.where.bits[k] = 1)
          \/ \E i \in 1..Len(a.p) : PredHolds(a.p[i], v.vals[k])]]
Exp_mask(f, a) == [f EXCEPT !.vars = [i \in 1..Len(f.vars) |-> MaskVar(f, a, f.vars[i])]]

\* ================================================================= arithmetic
\* fs = <<left, right>> ; a.op
Dom_arith(fs, a) ==
  LET f == fs[1] g == fs[2] IN
  /\ a.op \in ArithOps
  /\ \A i \in 1..Len(f.vars) :
       LET v == f.vars[i] IN
       (~IsCoord(f, v.name) /\ HasVar(g, v.name)) =>
          /\ VarRec(g, v.name).shape = v.shape
          /\ v.enc = "num" /\ VarRec(g, v.name).enc = "num"
          /\ v.dt \in NumTypes /\ VarRec(g, v.name).dt \in NumTypes
          \* a quotient stored into an integer variable is truncated by the
          \* variable's dtype; the property speaks of the elementwise result,
          \* so true division and powers are in the domain for float data only
          /\ (a.op \in {"/", "**"} => v.dt \in {"f", "d"})
          /\ (a.op = "**" => \A k \in 1..Len(VarRec(g, v.name).vals) :
                               LET b == VarRec(g, v.name).vals[k] IN RIsInt(b) /\ b.n >= 0 /\ b.n <= 3)
ArithVar(f, g, a, v) ==
  IF IsCoord(f, v.name) \/ ~HasVar(g, v.name) THEN v
  ELSE LET w == VarRec(g, v.name)
           dt == IF w.dt \in IntTypes THEN v.dt ELSE w.dt
           \* integer x // 0 and x % 0: numpy's masked-array arithmetic masks the
           \* cell (domain mask) as soon as one operand is a masked array, even one
           \* without masked cells; two plain integer arrays give 0
           intdivzero == [k \in 1..Len(v.vals) |-> /\ dt \in IntTypes /\ a.op \in {"//", "%"}
                                                   /\ ~(v.mask[k] \/ w.mask[k]) /\ w.vals[k].n = 0]
           \* non-finite operands (logged as n/0: 1/0 = +inf, -1/0 = -inf, 0/0 = nan):
           \* +, - and * give a non-finite result, which the file operators mask;
           \* for the other operators the cell is not decided
           nonfin == [k \in 1..Len(v.vals) |-> ~(v.mask[k] \/ w.mask[k]) /\ (v.vals[k].d = 0 \/ w.vals[k].d = 0)]
           c == [k \in 1..Len(v.vals) |->
                   IF v.mask[k] \/ w.mask[k] THEN [ok |-> FALSE, v |-> RInt(0)]
                   ELSE IF nonfin[k] THEN [ok |-> FALSE, v |-> RInt(0)]
                   ELSE IF intdivzero[k] THEN (IF v.masked \/ w.masked THEN [ok |-> FALSE, v |-> RInt(0)]
                                               ELSE [ok |-> TRUE, v |-> RInt(0)])
                   ELSE ArithCellT(a.op, v.vals[k], w.vals[k], dt)]
       IN [v EXCEPT !.vals = [k \in 1..Len(c) |-> c[k].v],
                    !.mask = [k \in 1..Len(c) |-> ~c[k].ok]]
          @@ [freecells |-> [k \in 1..Len(c) |-> nonfin[k] /\ a.op \notin {"+", "-", "*"}]]
Exp_arith(fs, a) ==
  [fs[1] EXCEPT !.vars = [i \in 1..Len(fs[1].vars) |-> ArithVar(fs[1], fs[2], a, fs[1].vars[i])]]

\* ======================================================================= eval
\* a.assign : Seq([name, e : expression]) ; a.copyall
\* expression e : [t |-> "var", k] | [t |-> "int", v] | [t |-> "bin", op, l, r]
\*              | [t |-> "where", c, x, y]   (all variables of one common shape)
\*              | [t |-> "asarr", e]         (the plain-array view: same values)
DimsSuffix(s, t) == Len(s) <= Len(t) /\ s = SubSeq(t, Len(t) - Len(s) + 1, Len(t))
RECURSIVE EvalExpr(_, _, _)
\* value of e at cell k : [m |-> masked?, v |-> rational]
EvalExpr(f, e, k) ==
  \* (operands broadcast: a variable whose dimensions are the trailing ones of
  \* the result's repeats along the leading axes - row-major cell k of the
  \* result is cell ((k - 1) mod size) + 1 of the variable)
  CASE e.t = "var" -> LET v == VarRec(f, e.k) kk == ((k - 1) % Len(v.vals)) + 1
                      IN [m |-> v.mask[kk], v |-> v.vals[kk]]
    [] e.t = "int" -> [m |-> FALSE, v |-> RInt(e.v)]
    [] e.t = "asarr" -> EvalExpr(f, e.e, k)
    [] e.t = "part" -> EvalExpr(f, e.e, k)      \* (never in the domain: ExprTotal)
    [] e.t = "bin" -> LET x == EvalExpr(f, e.l, k) y == EvalExpr(f, e.r, k)
                      IN IF x.m \/ y.m THEN [m |-> TRUE, v |-> RInt(0)]
                         ELSE LET c == ArithCell(e.op, x.v, y.v) IN [m |-> ~c.ok, v |-> c.v]
    [] e.t = "where" -> LET c == EvalExpr(f, e.c, k) x == EvalExpr(f, e.x, k) y == EvalExpr(f, e.y, k)
                        IN IF c.m THEN [m |-> TRUE, v |-> RInt(0)]
                           ELSE IF c.v.n # 0 THEN x ELSE y
RECURSIVE ExprVars(_)
ExprVars(e) == CASE e.t = "var" -> {e.k}
                 [] e.t = "int" -> {}
                 [] e.t = "asarr" -> ExprVars(e.e)
                 [] e.t = "part" -> ExprVars(e.e)
                 [] e.t = "bin" -> ExprVars(e.l) \cup ExprVars(e.r)
                 [] e.t = "where" -> ExprVars(e.c) \cup ExprVars(e.x) \cup ExprVars(e.y)
RECURSIVE ExprTotal(_)
\* no operator that can produce a non-finite value (the property's eval
\* clause does not speak about non-finite results)
RECURSIVE ExprIsBool(_)
ExprIsBool(e) == \/ (e.t = "bin" /\ e.op \in {"<", "<=", ">", ">=", "==", "!="})
                 \/ (e.t = "where" /\ (ExprIsBool(e.x) \/ ExprIsBool(e.y)))
ExprTotal(e) == CASE e.t = "var" -> TRUE
                  [] e.t = "int" -> TRUE
                  [] e.t = "asarr" -> ExprTotal(e.e)
                  \* a view of part of a variable (A[0], A[1:]): its value is not specified
                  [] e.t = "part" -> FALSE
                  [] e.t = "bin" -> /\ e.op \in {"+", "-", "*", "<", "<=", ">", ">=", "==", "!="}
                                    /\ ExprTotal(e.l) /\ ExprTotal(e.r)
                                    \* numpy booleans are not numbers: no arithmetic on comparison results
                                    /\ ~ExprIsBool(e.l) /\ ~ExprIsBool(e.r)
                  [] e.t = "where" -> ExprTotal(e.c) /\ ExprTotal(e.x) /\ ExprTotal(e.y)
Dom_eval(f, a) ==
  /\ Len(a.assign) >= 1
  /\ NoDup([i \in 1..Len(a.assign) |-> a.assign[i].name])
  /\ \A i \in 1..Len(a.assign) :
       LET e == a.assign[i].e IN
       /\ ExprVars(e) # {} /\ ExprTotal(e)
       /\ \A k \in ExprVars(e) : HasVar(f, k) /\ VarRec(f, k).enc = "num" /\ VarRec(f, k).dt \in NumTypes
       \* one variable gives the dimensions of the result; those of every other
       \* one are its trailing dimensions (numpy broadcasting of named axes)
       /\ \E top \in ExprVars(e) : \A k \in ExprVars(e) : DimsSuffix(VarRec(f, k).dims, VarRec(f, top).dims)
       /\ ~HasDim(f, a.assign[i].name) /\ ~HasVar(f, a.assign[i].name)
EvalVar(f, as) ==
  LET tmpl == VarRec(f, CHOOSE top \in ExprVars(as.e) :
                           \A k \in ExprVars(as.e) : DimsSuffix(VarRec(f, k).dims, VarRec(f, top).dims))
      c == [k \in 1..Len(tmpl.vals) |-> EvalExpr(f, as.e, k)]
  IN [tmpl EXCEPT !.name = as.name,
                  !.vals = [k \in 1..Len(c) |-> c[k].v],
                  !.mask = [k \in 1..Len(c) |-> c[k].m]]
\* only the assigned variables are demanded (which other variables the result
\* keeps is not fixed by the property)
Exp_eval(f, a) == [f EXCEPT !.vars = [i \in 1..Len(a.assign) |-> EvalVar(f, a.assign[i])]]
EvalDiff(g, e) ==
  IF \E i \in 1..Len(e.vars) : ~HasVar(g, e.vars[i].name) THEN "assigned variable missing"
  ELSE IF \E i \in 1..Len(e.vars) : VarDiff(VarRec(g, e.vars[i].name), e.vars[i], "val") # ""
       THEN LET i == CHOOSE i \in 1..Len(e.vars) : VarDiff(VarRec(g, e.vars[i].name), e.vars[i], "val") # ""
            IN "variable " \o e.vars[i].name \o ": " \o VarDiff(VarRec(g, e.vars[i].name), e.vars[i], "val")
  ELSE ""

\* ================================================= what the machinery can decide
\* TLC integers are 32-bit; the value clauses are evaluated only where the exact
\* rational arithmetic of the specification cannot overflow.  These guards limit
\* the verification, not the documented domain of the operations.
RECURSIVE MaxSeqI(_)
MaxSeqI(s) == IF Len(s) = 0 THEN 0 ELSE MaxI(Head(s), MaxSeqI(Tail(s)))
MaxAbs(v) == IF v.enc # "num" THEN 0 ELSE MaxSeqI([k \in 1..Len(v.vals) |-> AbsI(v.vals[k].n)])
MaxDen(v) == IF v.enc # "num" THEN 1 ELSE MaxSeqI([k \in 1..Len(v.vals) |-> v.vals[k].d])
HasNonFin(v) == v.enc = "num" /\ \E k \in 1..Len(v.vals) : ~v.mask[k] /\ v.vals[k].d = 0
Dec_apply(f, a) ==
  \A i \in 1..Len(f.vars) :
    LET v == f.vars[i]
        axes == {ax \in 1..Len(v.dims) : v.dims[ax] \in FuncDims(a)}
        fns == {FuncOf(a, v.dims[ax]).f : ax \in axes}
    IN axes # {} =>
         /\ MaxDen(v) = 1 /\ Cardinality(axes) <= 2
         \* non-finite cells: only where every function merely selects elements
         /\ (HasNonFin(v) => \A ax \in axes : FuncOf(a, v.dims[ax]).kind = "callable" /\ FuncOf(a, v.dims[ax]).f \in SelFuns)
         \* float32 variance is not exact enough to identify the rational value
         /\ ("var" \in fns => Cardinality(axes) = 1 /\ (MaxAbs(v) <= 2000 \/ v.dt = "f"))
         /\ ("prod" \in fns => Cardinality(axes) = 1 /\ MaxAbs(v) <= 30)
         /\ MaxAbs(v) <= 20000
\* comparisons with non-finite cells are not modelled
Dec_mask(f, a) == Len(a.p) = 0 \/ \A i \in 1..Len(f.vars) : ~HasNonFin(f.vars[i])
Dec_arith(fs, a) ==
  \A i \in 1..Len(fs[1].vars) :
    LET v == fs[1].vars[i] IN
    (~IsCoord(fs[1], v.name) /\ HasVar(fs[2], v.name)) =>
      LET w == VarRec(fs[2], v.name) IN
      /\ MaxAbs(v) <= 20000 /\ MaxAbs(w) <= 20000 /\ MaxDen(v) <= 100 /\ MaxDen(w) <= 100
      /\ (a.op = "**" => MaxAbs(v) <= 1000 /\ MaxDen(v) = 1)
Sat(x) == IF x > 1000000000 THEN 1000000000 ELSE x
RECURSIVE ExprBound(_)
ExprBound(e) ==
  CASE e.t = "var" -> 1000
    [] e.t = "int" -> AbsI(e.v)
    [] e.t = "asarr" -> ExprBound(e.e)
    [] e.t = "part" -> ExprBound(e.e)
    [] e.t = "bin" -> LET x == ExprBound(e.l) y == ExprBound(e.r) IN
                      IF e.op \in {"+", "-"} THEN Sat(x + y)
                      ELSE IF e.op = "*" THEN (IF x > 30000 \/ y > 30000 THEN 1000000000 ELSE Sat(x * y))
                      ELSE 1
    [] e.t = "where" -> MaxI(ExprBound(e.x), ExprBound(e.y))
\* what Python evaluates an expression to: the library's plain variable class
\* ("PV") outranks a bare numpy masked array ("MA", the result of np.ma.where),
\* so PV <op> MA is computed on the DATA of the masked array and its mask is
\* lost; the library's masked variable class ("MV") outranks both.  Where such
\* a node meets masked cells the value is whatever lies under the mask: those
\* assignments are not decided (the property speaks of evaluating the
\* expression on the file's arrays, which is what happens)
RECURSIVE ExprKind(_, _)
ExprKind(f, e) ==
  CASE e.t = "var" -> IF VarRec(f, e.k).masked THEN "MV" ELSE "PV"
    [] e.t = "int" -> "S"
    [] e.t = "asarr" -> "NA"
    [] e.t = "part" -> "PV"
    [] e.t = "where" -> "MA"
    [] e.t = "bin" -> LET ks == {ExprKind(f, e.l), ExprKind(f, e.r)} IN
                      IF "MV" \in ks THEN "MV" ELSE IF "PV" \in ks THEN "PV"
                      ELSE IF "MA" \in ks THEN "MA" ELSE IF "NA" \in ks THEN "NA" ELSE "S"
RECURSIVE ExprMixed(_, _)
ExprMixed(f, e) ==
  CASE e.t = "bin" -> \/ {ExprKind(f, e.l), ExprKind(f, e.r)} = {"PV", "MA"}
                      \/ ExprMixed(f, e.l) \/ ExprMixed(f, e.r)
    [] e.t = "where" -> ExprMixed(f, e.c) \/ ExprMixed(f, e.x) \/ ExprMixed(f, e.y)
    [] e.t = "asarr" -> ExprMixed(f, e.e)
    [] OTHER -> FALSE
Dec_eval(f, a) ==
  \A i \in 1..Len(a.assign) :
    /\ (ExprMixed(f, a.assign[i].e) =>
          \A k \in ExprVars(a.assign[i].e) : \A c \in 1..Len(VarRec(f, k).mask) : ~VarRec(f, k).mask[c])
    /\ ExprBound(a.assign[i].e) < 1000000000
    /\ \A k \in ExprVars(a.assign[i].e) : MaxAbs(VarRec(f, k)) <= 1000 /\ MaxDen(VarRec(f, k)) = 1 /\ ~HasNonFin(VarRec(f, k))
=================================================================================
