SPECIFICATION Spec
INVARIANT NeverFabricates
INVARIANT FullFileReadsAll
INVARIANT Tiles
INVARIANT AnalyticSizes
CONSTRAINT EmitConstraint
CHECK_DEADLOCK FALSE
INVARIANT WindNeverFabricates
INVARIANT WindFullFileReadsAll
INVARIANT CloudNeverFabricates
INVARIANT CloudFullFileReadsAll
INVARIANT CloudSizes
INVARIANT CloudTrueReadingPasses
INVARIANT CloudAliasShape
INVARIANT LatNeverFabricates
INVARIANT LatFullFileReadsAll
