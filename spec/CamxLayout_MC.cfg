SPECIFICATION Spec
INVARIANT NeverFabricates
INVARIANT FullFileReadsAll
INVARIANT Tiles
CONSTRAINT EmitConstraint
CHECK_DEADLOCK FALSE
