SPECIFICATION Spec
INVARIANT Inv_WellFormed
CONSTRAINT EmitConstraint
CHECK_DEADLOCK FALSE
