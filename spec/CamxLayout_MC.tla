------------------------------ MODULE CamxLayout_MC ------------------------------
(* Small CAMx configurations: the layout tiles the file, and for EVERY cut    *)
(* offset the transcribed decision procedure of the memory-mapped reader      *)
(* either rejects the prefix or exposes only complete time steps (C14);       *)
(* each configuration is emitted once (as concrete words) for replay.         *)
EXTENDS CamxLayout, Json, IOUtils

Chars(s) == s   \* names are given as sequences of one-character strings
NameSets == { << <<"O","3">> >>, << <<"N","O","2">>, <<"O","3">> >>,
              << <<"A","B","C","D","E","F","G","H","I","J">>, <<"X">>, <<"N","O">> >> }
Starts == { <<1999, 365, 22>>, <<2000, 59, 23>>, <<1970, 1, 0>>, <<2069, 364, 21>>, <<2011, 365, 23>>, <<2004, 366, 22>>, <<2011, 182, 5>>,
            <<2000, 365, 23>> }   \* the last one ends on day 366 of a leap year
Grids == { <<1, 1, 1>>, <<2, 1, 1>>, <<1, 2, 2>>, <<2, 2, 1>>, <<3, 2, 2>>, <<2, 3, 1>> }
Quick == IOEnv.PNC_CAMX_SCALE = "quick"
ConfigsAll ==
  { [fmt |-> "uamiv", name |-> nm, note |-> nt2, itzon |-> 0, spc |-> sp,
     nx |-> g[1], ny |-> g[2], nz |-> g[3], nt |-> nt, year |-> st[1], jjj |-> st[2], hour |-> st[3],
     plon |-> -97, plat |-> 40, iutm |-> 0, xorg |-> -2736, yorg |-> -2088, delx |-> 36, dely |-> 24,
     iproj |-> 2, istag |-> 0, tlat1 |-> 33, tlat2 |-> 45, h24 |-> h] :
      nm \in { <<"A","V","E","R","A","G","E">>, <<"E","M","I","S","S","I","O","N","S">> },
      sp \in NameSets, g \in Grids, nt \in 1..3, st \in Starts, h \in BOOLEAN,
      \* the note: left-justified, or beginning with blanks (a centred title)
      nt2 \in { <<"v","e","r","i","f">>, <<" "," ","m","i","d"," ","x">> } }
\* legacy two-dimensional EMISSIONS files: one layer of data, 0 layers in the header
LegacyConfigs ==
  { [fmt |-> "uamiv", name |-> <<"E","M","I","S","S","I","O","N","S">>, note |-> <<"v","e","r","i","f">>, itzon |-> 0, spc |-> sp,
     nx |-> g[1], ny |-> g[2], nz |-> 1, nt |-> nt, year |-> 2011, jjj |-> 182, hour |-> 5,
     plon |-> -97, plat |-> 40, iutm |-> 0, xorg |-> -2736, yorg |-> -2088, delx |-> 36, dely |-> 24,
     iproj |-> 2, istag |-> 0, tlat1 |-> 33, tlat2 |-> 45, h24 |-> FALSE, nz0 |-> TRUE] :
      sp \in NameSets, g \in { <<2, 1>>, <<2, 2>> }, nt \in 1..3 }
\* the quick tier keeps the shapes that matter most: 1-3 steps, every start, small grids
Configs == IF Quick THEN {x \in ConfigsAll : x.nx * x.ny * x.nz <= 4 /\ Len(x.spc) <= 2
                                            /\ (x.name[1] = "A" \/ (Len(x.spc) = 1 /\ x.jjj = 1))
                                            /\ (x.h24 <=> x.nt = 2)
                                            /\ ((x.note[1] = " ") <=> x.nt = 1)}
           ELSE ConfigsAll

\* meteorological formats: one configuration record per format/grid/steps/start
MetConfigs ==
  { [fmt |-> f, spc |-> <<>>, nx |-> g[1], ny |-> g[2], nz |-> g[3], nt |-> nt,
     year |-> st[1], jjj |-> st[2], hour |-> st[3], h24 |-> FALSE, hdr3 |-> TRUE, lstag |-> 0, nv |-> 0] :
      f \in MetFmts \ {"wind"}, g \in { <<1, 1, 1>>, <<2, 1, 2>>, <<2, 2, 1>>, <<3, 2, 2>>, <<1, 2, 3>> },
      nt \in 1..3, st \in { <<1999, 365, 22>>, <<2000, 59, 23>>, <<2011, 1, 0>> } }
  \cup
  \* steps of 24 hours: consecutive steps carry the same hour on different dates
  \* (the headerless formats find the step boundaries by comparing stamps)
  { [fmt |-> f, spc |-> <<>>, nx |-> g[1], ny |-> g[2], nz |-> g[3], nt |-> nt,
     year |-> st[1], jjj |-> st[2], hour |-> st[3], h24 |-> FALSE, hdr3 |-> TRUE, lstag |-> 0, nv |-> 0, dth |-> 24] :
      f \in MetFmts \ {"wind"}, g \in { <<2, 1, 2>>, <<1, 2, 3>> },
      nt \in 2..3, st \in { <<1999, 364, 12>>, <<2011, 1, 0>> } }
  \cup
  \* wind: the slab records carry no time stamp, so the readers tell the
  \* records of a step apart by their sizes: a slab must not have the size of
  \* the dummy record (1 word), hence grids of at least 2 cells; slabs of the
  \* size of the time record (2 or 3 words) are part of the domain (the
  \* sequential reader rejects them: finding C09_K3).  Long files (7 steps) on the smallest grid
  \* exercise the step-count rule.
  { [fmt |-> "wind", spc |-> <<>>, nx |-> g[1], ny |-> g[2], nz |-> g[3], nt |-> nt,
     year |-> st[1], jjj |-> st[2], hour |-> st[3], h24 |-> FALSE, hdr3 |-> h3, lstag |-> 1, nv |-> 0] :
      g \in { <<2, 2, 1>>, <<3, 2, 2>>, <<4, 1, 3>>, <<2, 1, 2>>, <<1, 3, 1>> }, nt \in {1, 2, 3, 7}, h3 \in BOOLEAN,
      st \in { <<1999, 365, 22>>, <<2000, 59, 20>>, <<2011, 1, 0>> } }
  \cup
  \* cloud/rain: 5 variables (CAMx >= 4.3) or 3 (older); configurations whose
  \* size is also a whole number of steps of the other variant are ambiguous by
  \* format and left out (CloudAmbiguous)
  { x \in { [fmt |-> "cloud_rain", spc |-> <<>>, nx |-> g[1], ny |-> g[2], nz |-> g[3], nt |-> nt,
              year |-> st[1], jjj |-> st[2], hour |-> st[3], h24 |-> FALSE, hdr3 |-> TRUE, lstag |-> 0, nv |-> nv] :
             g \in { <<2, 1, 1>>, <<2, 2, 1>>, <<3, 2, 2>> }, nt \in 1..3, nv \in {3, 5},
             st \in { <<1999, 365, 22>>, <<2011, 1, 0>> } } : ~CloudAmbiguous(x) }
  \cup
  \* land use (time independent; the old style has 11 categories and at most one
  \* optional record)
  { x \in { [fmt |-> "landuse", spc |-> <<>>, nx |-> g[1], ny |-> g[2], nz |-> nl, nt |-> 1,
              year |-> 2011, jjj |-> 1, hour |-> 0, h24 |-> FALSE, hdr3 |-> TRUE, lstag |-> 0, nv |-> 0,
              newstyle |-> ns, nopt |-> no] :
             g \in { <<2, 2>>, <<3, 2>> }, nl \in {11, 26}, ns \in BOOLEAN, no \in 0..2 } :
        x.newstyle \/ (x.nopt <= 1 /\ x.nz = 11) }
  \cup
  \* lateral boundary: grids of at least 2 x 2 (an edge has a first and a last cell)
  { [fmt |-> "lateral_boundary", name |-> <<"B","O","U","N","D","A","R","Y">>, note |-> <<"v","e","r","i","f">>, itzon |-> 0,
     spc |-> sp, nx |-> g[1], ny |-> g[2], nz |-> g[3], nt |-> nt, year |-> st[1], jjj |-> st[2], hour |-> st[3],
     plon |-> -97, plat |-> 40, iutm |-> 0, xorg |-> -2736, yorg |-> -2088, delx |-> 36, dely |-> 24,
     iproj |-> 2, istag |-> 0, tlat1 |-> 33, tlat2 |-> 45, h24 |-> h] :
      sp \in (IF Quick THEN { << <<"O","3">> >>, << <<"N","O","2">>, <<"O","3">> >> } ELSE NameSets),
      g \in { <<2, 2, 1>>, <<3, 2, 2>>, <<2, 3, 1>> }, nt \in 1..3, h \in (IF Quick THEN {FALSE} ELSE BOOLEAN),
      st \in { <<1999, 365, 22>>, <<2000, 59, 23>>, <<2011, 182, 5>>, <<2004, 365, 22>>, <<2004, 366, 22>> } }
\* large files (truncation of realistic sizes): compact emission, no cut enumeration
BigConfigs ==
  { [fmt |-> "uamiv", name |-> <<"A","V","E","R","A","G","E">>, note |-> <<"b","i","g">>, itzon |-> 0,
     spc |-> << <<"N","O">>, <<"N","O","2">>, <<"O","3">>, <<"C","O">> >>,
     nx |-> 100, ny |-> 100, nz |-> 3, nt |-> 2, year |-> 2011, jjj |-> 182, hour |-> 5,
     plon |-> -97, plat |-> 40, iutm |-> 0, xorg |-> -2736, yorg |-> -2088, delx |-> 36, dely |-> 24,
     iproj |-> 2, istag |-> 0, tlat1 |-> 33, tlat2 |-> 45, h24 |-> FALSE] }
Big == IOEnv.PNC_CAMX_FAMILY = "big"
AllConfigs == CASE IOEnv.PNC_CAMX_FAMILY = "met" -> MetConfigs
                [] Big -> BigConfigs
                [] OTHER -> {x \in Configs : TimesExpressible(x)} \cup LegacyConfigs

\* c: the configuration, n: the cut offset, z: the sizes of c's layout (computed
\* once from the grammar, so that the per-offset invariants are arithmetic)
VARIABLES c, n, z
vars == <<c, n, z>>
HeaderBytes(cc) == Offset(cc, NHeader(cc))
BlockBytes(cc) == Offset(cc, NHeader(cc) + RecsPerStep(cc)) - HeaderBytes(cc)
SizesOf(cc) == [hb |-> IF Big THEN UamivHeaderBytesA(cc) ELSE HeaderBytes(cc),
                bb |-> IF Big THEN UamivBlockBytesA(cc) ELSE BlockBytes(cc),
                fb |-> IF Big THEN UamivFileBytesA(cc) ELSE FileBytes(cc),
                wd |-> IF cc.fmt = "wind" THEN WindDummyOffset(cc) ELSE 0]
\* only C14 walks the cut offsets; the other checks use the configurations
Cuts == IOEnv.PNC_CAMX_CUTS = "1"
Init == c \in AllConfigs /\ n = 0 /\ z = SizesOf(c)
Next == ~Big /\ Cuts /\ n < z.fb /\ n' = n + 1 /\ UNCHANGED <<c, z>>
Spec == Init /\ [][Next]_vars
Complete(nn) == IF nn < z.hb THEN 0 ELSE (nn - z.hb) \div z.bb

\* ---- the memory-mapped uamiv reader's decision procedure on the first n bytes
UamivOpen(nn) ==
  IF nn < z.hb THEN [k |-> "Err", n |-> 0]                        \* a header cannot be mapped
  ELSE IF (nn - z.hb) % z.bb # 0 THEN [k |-> "Err", n |-> 0]      \* "Partial time output"
  ELSE IF nn = z.hb THEN [k |-> "Err", n |-> 0]                   \* nothing to map
  ELSE [k |-> "Steps", n |-> (nn - z.hb) \div z.bb]

\* ---- the memory-mapped wind reader's decision procedure (CamxLayout.WindOpenZ)
WindLegacyCount == IOEnv.PNC_CAMX_DEV = "wind_legacy_count"
WindOpen(nn) == WindOpenZ(z.wd, z.bb, nn, WindLegacyCount)
WindNeverFabricates == (c.fmt = "wind") => LET o == WindOpen(n) IN o.k = "Steps" => o.n <= Complete(n)
WindFullFileReadsAll == (c.fmt = "wind" /\ n = z.fb) => WindOpen(n) = [k |-> "Steps", n |-> c.nt]

\* ---- cloud/rain and lateral boundary
CloudNeverFabricates == (c.fmt = "cloud_rain" /\ ~CloudAliased(c, n)) =>
                           LET o == CloudOpenM(c, n) IN o.k = "Steps" => o.n <= Complete(n)
CloudFullFileReadsAll == (c.fmt = "cloud_rain" /\ n = z.fb) => CloudOpenM(c, n) = [k |-> "Steps", n |-> c.nt, nv |-> c.nv]
\* the marker comparison never rejects the true reading, and it leaves only
\* single-step readings of a newer file as an older one (on a 2-cell grid the
\* slabs have the shape of a time record and more readings survive)
CloudTrueReadingPasses == (c.fmt = "cloud_rain" /\ n > z.hb /\ (n - z.hb) % z.bb = 0) => CloudMarkersOK(c, c.nv, (n - z.hb) \div z.bb)
CloudAliasShape == (c.fmt = "cloud_rain" /\ c.nx * c.ny # 2 /\ CloudAliased(c, n)) => (c.nv = 5 /\ CloudOpenM(c, n).n = 1)
CloudSizes == (c.fmt = "cloud_rain" /\ n = 0) => (CloudHeaderBytes(c) = z.hb /\ CloudStepBytesNV(c, c.nv) = z.bb)
\* the lateral boundary reader: whole blocks after the eight header records
LatOpen(nn) ==
  IF nn <= z.hb THEN [k |-> "Err", n |-> 0]
  ELSE IF (nn - z.hb) % z.bb # 0 THEN [k |-> "Err", n |-> 0]
  ELSE [k |-> "Steps", n |-> (nn - z.hb) \div z.bb]
LatNeverFabricates == (c.fmt = "lateral_boundary") => LET o == LatOpen(n) IN o.k = "Steps" => o.n <= Complete(n)
LatFullFileReadsAll == (c.fmt = "lateral_boundary" /\ n = z.fb) => LatOpen(n) = [k |-> "Steps", n |-> c.nt]

NeverFabricates == (c.fmt = "uamiv" /\ ~Big) => LET o == UamivOpen(n) IN o.k = "Steps" => o.n <= Complete(n)
FullFileReadsAll == (c.fmt = "uamiv" /\ ~Big /\ n = z.fb) => UamivOpen(n) = [k |-> "Steps", n |-> c.nt]
\* the sizes in z are those of the grammar: the file is tiled by header + nt blocks,
\* and the arithmetic step count agrees with the record-by-record definition
Tiles == (Big \/ n > 0) \/ (FileBytes(c) = z.hb + c.nt * z.bb /\ z.fb = FileBytes(c)
                              /\ \A m \in {0, z.hb, z.hb + z.bb - 1, z.hb + z.bb, z.fb} : Complete(m) = CompleteSteps(c, m))
\* the closed-form sizes agree with the grammar
AnalyticSizes == (c.fmt = "uamiv" /\ ~Big /\ n = 0) =>
  /\ UamivHeaderBytesA(c) = z.hb /\ UamivBlockBytesA(c) = z.bb /\ UamivFileBytesA(c) = z.fb
EmitConstraint ==
  IF IOEnv.PNC_EMIT = "1" /\ n = 0
  THEN IF Big
       THEN PrintT(ToJson([cfg |-> c, recs |-> ConcreteC(c), bytes |-> z.fb, header |-> z.hb, block |-> z.bb]))
       ELSE PrintT(ToJson([cfg |-> c, recs |-> Concrete(c), bytes |-> z.fb, header |-> z.hb, block |-> z.bb]))
  ELSE TRUE
=================================================================================
