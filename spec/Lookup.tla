--------------------------------- MODULE Lookup ---------------------------------
(* C16: value-to-index lookup on a strictly monotone 1-D coordinate.          *)
(*                                                                            *)
(* A configuration cf has                                                     *)
(*   cf.c      coordinate values (integers, strictly monotone, length >= 2)    *)
(*   cf.rep    "none" | "edges" | "nx2"   how cell bounds are given            *)
(*   cf.e      cell edges (length n + 1; for "none" the natural mid-points)   *)
(*   cf.method "nearest" | "bounds" | "exact"                                 *)
(*   cf.clean  "none" | "mask" ; cf.bnd "ignore" | "warn" | "error"            *)
(*   cf.nan    TRUE: left = right = nan, FALSE: left = right = None            *)
(* An observation of one lookup of value v is                                 *)
(*   [k |-> "idx", i |-> index] | [k |-> "masked", i |-> 0] | [k |-> "raised", i |-> 0] *)
(* plus whether a warning was emitted.  The property is stated as the set of  *)
(* observations it allows (ties and interior edges allow both neighbours).    *)
EXTENDS Integers, Sequences, FiniteSets, TLC

AbsL(a) == IF a < 0 THEN -a ELSE a
N(cf) == Len(cf.c)
MinOf(s) == CHOOSE x \in {s[i] : i \in 1..Len(s)} : \A j \in 1..Len(s) : x <= s[j]
MaxOf(s) == CHOOSE x \in {s[i] : i \in 1..Len(s)} : \A j \in 1..Len(s) : x >= s[j]
Monotone(s) == (\A i \in 1..(Len(s) - 1) : s[i] < s[i + 1]) \/ (\A i \in 1..(Len(s) - 1) : s[i] > s[i + 1])

\* natural cell edges of a coordinate without bounds: mid-points, outer edges
\* half a spacing beyond the end centres (coordinates are multiples of 4)
MidEdges(c) == [i \in 1..(Len(c) + 1) |->
  IF i = 1 THEN c[1] - (c[2] - c[1]) \div 2
  ELSE IF i = Len(c) + 1 THEN c[Len(c)] + (c[Len(c)] - c[Len(c) - 1]) \div 2
  ELSE (c[i - 1] + c[i]) \div 2]
Uniform(c) == \A i \in 1..(Len(c) - 1) : c[i + 1] - c[i] = c[2] - c[1]

Between(v, a, b) == (a <= v /\ v <= b) \/ (b <= v /\ v <= a)
\* 0-based indices of the cells whose closed edge interval contains v
Cells(cf, v) == {i - 1 : i \in {j \in 1..N(cf) : Between(v, cf.e[j], cf.e[j + 1])}}
\* 0-based indices of the coordinate values closest to v
Nearest(cf, v) == {i - 1 : i \in {j \in 1..N(cf) : \A k \in 1..N(cf) : AbsL(cf.c[j] - v) <= AbsL(cf.c[k] - v)}}
Equal(cf, v) == {i - 1 : i \in {j \in 1..N(cf) : cf.c[j] = v}}

InCentres(cf, v) == MinOf(cf.c) <= v /\ v <= MaxOf(cf.c)
InEdges(cf, v) == MinOf(cf.e) <= v /\ v <= MaxOf(cf.e)
\* outside both the centre range and the edge range: out of range by any reading
DefinitelyOut(cf, v) == ~InCentres(cf, v) /\ ~InEdges(cf, v)
\* index of the end cell on the side where v lies
EndIdx(cf, v) == IF AbsL(cf.c[1] - v) <= AbsL(cf.c[N(cf)] - v) THEN 0 ELSE N(cf) - 1

\* without a bounds variable the outer half cells of a non-uniform coordinate
\* are not defined by the file: the library may treat them as out of range
AmbiguousOuter(cf, v) == cf.rep = "none" /\ ~Uniform(cf.c) /\ ~InCentres(cf, v) /\ InEdges(cf, v)

\* the range the lookup treats as "in": centres for nearest/exact, edges for bounds
InRange(cf, v) == IF cf.method = "bounds" THEN InEdges(cf, v) ELSE InCentres(cf, v)

\* an explicit right-hand value is in force and v lies above the last edge
RS(cf) == IF "rs" \in DOMAIN cf THEN cf.rs ELSE 0
RightOut(cf, v) == RS(cf) # 0 /\ cf.c[1] < cf.c[N(cf)] /\ v > MaxOf(cf.e) /\ ~(cf.rep = "none" /\ ~Uniform(cf.c))

\* -------------------------------------------------------------- the property
\* is observation ob (with warning flag w) allowed for value v ?
AllowedObs(cf, v, ob, w) ==
  LET out == ~InRange(cf, v) IN
  /\ \* R5: a call may be rejected only when rejection was requested and v is out
     ob.k = "raised" => (cf.bnd = "error" /\ (out \/ AmbiguousOuter(cf, v)))
  /\ \* R2: rejection requested and v out of range by any reading: must raise
     (cf.bnd = "error" /\ DefinitelyOut(cf, v)) => ob.k = "raised"
  /\ \* R3: a warning requested and v out of range by any reading: must warn
     (cf.bnd = "warn" /\ DefinitelyOut(cf, v) /\ ob.k # "raised") => w
  /\ \* R4: masking requested (nan + clean) and v out: must be masked
     (cf.nan /\ cf.clean = "mask" /\ DefinitelyOut(cf, v) /\ ob.k # "raised") => ob.k = "masked"
  /\ \* a value in range is never masked (exact: masked iff no equal coordinate)
     (ob.k = "masked" /\ cf.method # "exact") => (out \/ AmbiguousOuter(cf, v))
  /\ \* R1: never a wrong cell
     ob.k = "idx" =>
       CASE cf.method = "nearest" -> ob.i \in Nearest(cf, v)
         [] cf.method = "bounds" ->
              \* an explicit value for the right side (cf.rs # 0, ascending coordinate,
              \* see np.interp): what is returned for values above the last edge
              IF RightOut(cf, v) THEN ob.i = cf.rs
              ELSE
              IF InEdges(cf, v) /\ ~AmbiguousOuter(cf, v) THEN ob.i \in Cells(cf, v)
              ELSE \* out of range: only the documented clamping to the end cell,
                   \* and only when neither masking nor rejection was requested
                   /\ ob.i = EndIdx(cf, v)
                   /\ (~cf.nan \/ AmbiguousOuter(cf, v))
                   /\ cf.bnd \in {"ignore", "warn"}
         [] cf.method = "exact" -> ob.i \in Equal(cf, v)
  /\ (cf.method = "exact" /\ ob.k = "masked") => Equal(cf, v) = {}

\* ------------------------------------------------- datetime front-ends
\* time2idx(t) is val2idx(date2num(t)): the value looked up for a datetime is
\* its distance from the reference instant of the coordinate's units, in that
\* unit.  Civil tuples are <<Y, M, D, h, m, s, utc offset in minutes>>; day
\* numbers come from the day-number function dn (Calendar!DayNum of the
\* coordinate's calendar), passed in so that this module stays calendar-free.
CivSec(c) == c[4] * 3600 + c[5] * 60 + c[6] - c[7] * 60
SecondsFrom(dn(_, _, _), ref, civ) ==
  (dn(civ[1], civ[2], civ[3]) - dn(ref[1], ref[2], ref[3])) * 86400 + CivSec(civ) - CivSec(ref)
UnitSecL(unit) == CASE unit = "days" -> 86400 [] unit = "hours" -> 3600
                    [] unit = "minutes" -> 60 [] unit = "seconds" -> 1
TimeExact(dn(_, _, _), unit, ref, civ) == SecondsFrom(dn, ref, civ) % UnitSecL(unit) = 0
TimeVal(dn(_, _, _), unit, ref, civ) == SecondsFrom(dn, ref, civ) \div UnitSecL(unit)

\* time2t(t, ttype): "nearest" = index of the closest time, never masked;
\* "bounds" = the cell of getTimes(bounds=True) that contains t, masked outside;
\* "bounds_close" = the same cell, clamped to the end cell outside.
AllowedT2t(cf, ttype, v, ob) ==
  /\ ob.k # "raised"
  /\ CASE ttype = "nearest" -> ob.k = "idx" /\ ob.i \in Nearest(cf, v)
       [] ttype = "bounds" -> IF InEdges(cf, v) THEN ob.k = "idx" /\ ob.i \in Cells(cf, v)
                              ELSE ob.k = "masked"
       [] ttype = "bounds_close" -> ob.k = "idx" /\
                              (IF InEdges(cf, v) THEN ob.i \in Cells(cf, v) ELSE ob.i = EndIdx(cf, v))

\* probes: each centre, each edge, one inside/outside every edge, far outside
Probes(cf) ==
  {cf.c[i] : i \in 1..N(cf)} \cup {cf.e[i] : i \in 1..(N(cf) + 1)}
  \cup {cf.e[i] + 1 : i \in 1..(N(cf) + 1)} \cup {cf.e[i] - 1 : i \in 1..(N(cf) + 1)}
  \cup {MinOf(cf.e) - 40, MaxOf(cf.e) + 40}
=================================================================================
