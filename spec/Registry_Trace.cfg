SPECIFICATION TSpec
CONSTANTS
  Files <- EnvFiles
  Reg0 <- EnvReg0
  ClassOf <- EnvClassOf
  Accept <- EnvAccept
  Ext <- EnvExt
  Aliasing = FALSE
  MaxHist = 1000
CHECK_DEADLOCK FALSE
