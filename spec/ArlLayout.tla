-------------------------------- MODULE ArlLayout --------------------------------
(* C20 (second sentence): the ARL packed-bit FILE layout as a record grammar.   *)
(* A file is a sequence of fixed-length records of 50 + nx*ny bytes.  Per time:  *)
(*   one index record: the 50-byte label (time, level 0, grid, "INDX", ...),    *)
(*     108 bytes of grid definition, the variable definition text (per level:   *)
(*     the level, the number of variables, and per variable its 4-character     *)
(*     name, its checksum and a blank), blanks up to the record length;          *)
(*   one data record per surface variable, then per level per variable:         *)
(*     the 50-byte label (time, level, grid, name, exponent, precision, value   *)
(*     at (1,1)) and nx*ny bytes packed as spec/ArlPack.tla defines.             *)
(* Grids with 1000 or more cells in a direction: see GridId.                    *)
(* Fields are fixed-width text: [t |-> "a", v, n] text left-justified in n      *)
(* bytes; [t |-> "i", v, n] an integer right-justified; [t |-> "z", v, n] an    *)
(* integer zero-padded; [t |-> "e", num, den, n] a real in E format (n = 14:    *)
(* %14.7E) ; [t |-> "f", num, den, n, p] a real in F format with p decimals;    *)
(* [t |-> "b", v] rows of bytes.                                                *)
(* configuration c: nx, ny, sfc : Seq(4-character names) of the surface level,  *)
(* levv : per level above the surface the names of its variables (levels may     *)
(* carry different variables), levels : Seq of [txt, v] (the surface level       *)
(* first; v in 1/10000), nt, start = <<yy, mm, dd, hh>>, dth (hours between      *)
(* times), base : the first value of each variable (in the order of AllNames).   *)
EXTENDS ArlPack, Calendar

RECURSIVE FlattenSeqA(_)
FlattenSeqA(ss) == IF Len(ss) = 0 THEN <<>> ELSE Head(ss) \o FlattenSeqA(Tail(ss))

A(v, n) == [t |-> "a", v |-> v, n |-> n]
Iw(v, n) == [t |-> "i", v |-> v, n |-> n]
Zw(v, n) == [t |-> "z", v |-> v, n |-> n]
Ew(num, den) == [t |-> "e", num |-> num, den |-> den, n |-> 14]
Fw(num, den, n, p) == [t |-> "f", num |-> num, den |-> den, n |-> n, p |-> p]
Bw(rows) == [t |-> "b", v |-> rows]

\* the layer variables in the order of their first appearance, level by level
RECURSIVE AddNew(_, _)
AddNew(acc, names) == IF Len(names) = 0 THEN acc
                      ELSE AddNew(IF \E q \in 1..Len(acc) : acc[q] = Head(names) THEN acc ELSE Append(acc, Head(names)), Tail(names))
RECURSIVE LayerNamesFrom(_, _, _)
LayerNamesFrom(c, l, acc) == IF l > Len(c.levv) THEN acc ELSE LayerNamesFrom(c, l + 1, AddNew(acc, c.levv[l]))
LayerNames(c) == LayerNamesFrom(c, 1, <<>>)
AllNames(c) == c.sfc \o LayerNames(c)
NVars(c) == Len(AllNames(c))
Idx(c, name) == CHOOSE q \in 1..NVars(c) : AllNames(c)[q] = name
IsSfc(c, name) == \E q \in 1..Len(c.sfc) : c.sfc[q] = name
HasOn(c, name, l) == \E q \in 1..Len(c.levv[l]) : c.levv[l][q] = name
\* the levels (1-based, above the surface) that carry a layer variable
LevelsOf(c, name) == SelectSeq([l \in 1..Len(c.levv) |-> l], LAMBDA l : HasOn(c, name, l))

\* the field of a variable, time t, level l (0 = surface): integers with neighbour
\* differences between 64 and 255 (exponent 7 or 8)
Field(c, name, t, l) ==
  LET s == Idx(c, name) IN
  [j \in 1..c.ny |-> [i \in 1..c.nx |->
     c.base[s] + 64 * ((3 * j + 2 * i + s + t + l) % 4) + ((j * i + t + 2 * l) % 7)]]

\* ---- time of step t : start + (t - 1) * dth hours (proleptic calendar)
\* two-digit years: 69-99 are 1969-1999, 00-68 are 2000-2068 (the POSIX %y rule)
Year4(yy) == IF yy >= 69 THEN 1900 + yy ELSE 2000 + yy
StartDay(c) == LET y0 == DaysBeforeYear("std", Year4(c.start[1])) IN
               y0 + (CHOOSE d \in 0..366 : Civil("std", y0 + d)[2] = c.start[2] /\ Civil("std", y0 + d)[3] = c.start[3])
InstOfStep(c, t) == NormInst(StartDay(c), (c.start[4] + (t - 1) * c.dth) * 3600, 0)
CivilOfStep(c, t) == CivilOf("std", InstOfStep(c, t))     \* <<y, m, d, H, M, S, us>>
TimeFields(c, t) == LET cv == CivilOfStep(c, t) IN
  << Zw(cv[1] % 100, 2), Zw(cv[2], 2), Zw(cv[3], 2), Zw(cv[4], 2), Zw(c.ff, 2) >>

\* ---- grid identification (2 characters of every label): a two-digit grid
\* number, unless a direction has 1000 or more cells; then one character per
\* direction, CHAR(64 + thousands) ("@" = none, "A" = 1, ...), and the
\* three-digit NX / NY of the index record hold the remainders
GridLetter(k) == CASE k = 0 -> "@" [] k = 1 -> "A" [] k = 2 -> "B" [] k = 3 -> "C" [] k = 4 -> "D"
GridId(c) == IF c.nx >= 1000 \/ c.ny >= 1000 THEN GridLetter(c.nx \div 1000) \o GridLetter(c.ny \div 1000) ELSE "99"

\* ---- the 6-character text of a level in the index record.  v5 is the level in
\* 1/100000 units (sigma 0.99875 = 99875, 925 hPa = 92500000).  The text holds as
\* many decimals as fit: 5 for levels below 1 (the leading zero is dropped:
\* ".99875"), 4 below 10 ("1.0000"), 3 below 100, ... ; it is right-justified.
DigitCh(k) == CASE k = 0 -> "0" [] k = 1 -> "1" [] k = 2 -> "2" [] k = 3 -> "3" [] k = 4 -> "4"
                [] k = 5 -> "5" [] k = 6 -> "6" [] k = 7 -> "7" [] k = 8 -> "8" [] k = 9 -> "9"
RECURSIVE Pow10(_)
Pow10(k) == IF k <= 0 THEN 1 ELSE 10 * Pow10(k - 1)
\* n as exactly k decimal digits (zero padded)
DigitsK(n, k) == [q \in 1..k |-> DigitCh((n \div Pow10(k - q)) % 10)]
NDigits(n) == IF n = 0 THEN 0 ELSE CHOOSE k \in 1..10 : Pow10(k - 1) <= n /\ n < Pow10(k)
LevelDecimals(v5) == LET k == 5 - NDigits(v5 \div 100000) IN IF k > 5 THEN 5 ELSE k
\* the level is a whole number of units of its last printed decimal
LevelPrintable(v5) == v5 >= 0 /\ (v5 % 100000) % Pow10(5 - LevelDecimals(v5)) = 0 /\ NDigits(v5 \div 100000) <= 4
LevelChars(v5) ==
  LET ip == v5 \div 100000
      dec == LevelDecimals(v5)
      full == (IF ip = 0 THEN <<"0">> ELSE DigitsK(ip, NDigits(ip))) \o <<".">> \o DigitsK((v5 % 100000) \div Pow10(5 - dec), dec)
      padded == [q \in 1..(IF Len(full) < 6 THEN 6 - Len(full) ELSE 0) |-> " "] \o full
  IN SubSeq(padded, Len(padded) - 5, Len(padded))

\* ---- records
Packed(c, name, t, l) == Pack(Field(c, name, t, l))
Label(c, t, l, name, nexp, precnum, precden, var1) ==
  TimeFields(c, t) \o << Iw(l, 2), A(GridId(c), 2), A(name, 4), Iw(nexp, 4), Ew(precnum, precden), Ew(var1, 1) >>
\* precision = 2^nexp / 254
DataRecord(c, name, t, l) ==
  LET p == Packed(c, name, t, l) IN
  Label(c, t, l, name, p.nexp, Pow2(p.nexp), 254, p.var1) \o << Bw(p.bytes) >>
CheckSum(c, name, t, l) == ByteSum(Packed(c, name, t, l)) % 255
NamesAt(c, li) == IF li = 1 THEN c.sfc ELSE c.levv[li - 1]
VarDefLevel(c, t, li) ==
  LET ns == NamesAt(c, li) IN
  << A(c.levels[li].txt, 6), Iw(Len(ns), 2) >> \o
  FlattenSeqA([q \in 1..Len(ns) |-> << A(ns[q], 4), Iw(CheckSum(c, ns[q], t, li - 1), 3), A(" ", 1) >>])
RECURSIVE SumLens(_, _)
SumLens(c, li) == IF li > Len(c.levels) THEN 0 ELSE 8 + 8 * Len(NamesAt(c, li)) + SumLens(c, li + 1)
VarDefLen(c) == SumLens(c, 1)
LenH(c) == 108 + VarDefLen(c)
RecLen(c) == 50 + c.nx * c.ny
IndexRecord(c, t) ==
  Label(c, t, 0, "INDX", 0, 0, 1, 0) \o
  << A("TEST", 4), Iw(0, 3), Iw(2, 2) >> \o
  \* pole lat/lon, reference lat/lon, grid size (0 = lat-lon grid), orientation, tangent
  \* latitude, synch x/y, synch lat/lon, reserved
  << Fw(90, 1, 7, 2), Fw(0, 1, 7, 2), Fw(1, 1, 7, 2), Fw(1, 1, 7, 2), Fw(0, 1, 7, 2), Fw(0, 1, 7, 2),
     Fw(0, 1, 7, 2), Fw(1, 1, 7, 2), Fw(1, 1, 7, 2), Fw(-10, 1, 7, 2), Fw(20, 1, 7, 2), Fw(0, 1, 7, 2) >> \o
  << Iw(c.nx % 1000, 3), Iw(c.ny % 1000, 3), Iw(Len(c.levels), 3), Iw(1, 2), Iw(LenH(c), 4) >> \o
  FlattenSeqA([li \in 1..Len(c.levels) |-> VarDefLevel(c, t, li)]) \o
  << A("", RecLen(c) - 158 - VarDefLen(c)) >>
TimeBlock(c, t) ==
  << IndexRecord(c, t) >> \o
  [q \in 1..Len(c.sfc) |-> DataRecord(c, c.sfc[q], t, 0)] \o
  FlattenSeqA([l \in 1..Len(c.levv) |-> [q \in 1..Len(c.levv[l]) |-> DataRecord(c, c.levv[l][q], t, l)]])
ArlFile(c) == FlattenSeqA([t \in 1..c.nt |-> TimeBlock(c, t)])

\* ---- sizes
FieldBytes(f) == CASE f.t = "b" -> Len(f.v) * Len(f.v[1]) [] f.t = "e" -> 14 [] OTHER -> f.n
RECURSIVE RecBytesA(_)
RecBytesA(r) == IF Len(r) = 0 THEN 0 ELSE FieldBytes(Head(r)) + RecBytesA(Tail(r))
\* every record has the record length; the reader of the library reads LENH bytes
\* after the 158-byte fixed part, so the index record must hold them
AllRecordsSized(c) == \A r \in 1..Len(ArlFile(c)) : RecBytesA(ArlFile(c)[r]) = RecLen(c)
ReaderWindowFits(c) == 158 + LenH(c) <= RecLen(c)
RECURSIVE CountLev(_, _)
CountLev(c, l) == IF l > Len(c.levv) THEN 0 ELSE Len(c.levv[l]) + CountLev(c, l + 1)
RecordsPerTime(c) == 1 + Len(c.sfc) + CountLev(c, 1)

\* ---- what a reader must present
\* hours since the first time
HoursSince(c, t) == (t - 1) * c.dth
\* the unpacked field: the running reconstruction of the packing (exact)
ExpField(c, name, t, l) == Packed(c, name, t, l).recon
=================================================================================
