-------------------------------- MODULE ArlLayout --------------------------------
(* C20 (second sentence): the ARL packed-bit FILE layout as a record grammar.   *)
(* A file is a sequence of fixed-length records of 50 + nx*ny bytes.  Per time:  *)
(*   one index record: the 50-byte label (time, level 0, grid, "INDX", ...),    *)
(*     108 bytes of grid definition, the variable definition text (per level:   *)
(*     the level, the number of variables, and per variable its 4-character     *)
(*     name, its checksum and a blank), blanks up to the record length;          *)
(*   one data record per surface variable, then per level per variable:         *)
(*     the 50-byte label (time, level, grid, name, exponent, precision, value   *)
(*     at (1,1)) and nx*ny bytes packed as spec/ArlPack.tla defines.             *)
(* Fields are fixed-width text: [t |-> "a", v, n] text left-justified in n      *)
(* bytes; [t |-> "i", v, n] an integer right-justified; [t |-> "z", v, n] an    *)
(* integer zero-padded; [t |-> "e", num, den, n] a real in E format (n = 14:    *)
(* %14.7E) ; [t |-> "f", num, den, n, p] a real in F format with p decimals;    *)
(* [t |-> "b", v] rows of bytes.                                                *)
(* configuration c: nx, ny, sfc, lay : Seq(4-character names), levels : Seq of  *)
(* [txt, v] (the surface level first; v in 1/10000), nt, start = <<yy, mm, dd,  *)
(* hh>>, dth (hours between times), base : the first value of each variable.    *)
EXTENDS ArlPack, Calendar

RECURSIVE FlattenSeqA(_)
FlattenSeqA(ss) == IF Len(ss) = 0 THEN <<>> ELSE Head(ss) \o FlattenSeqA(Tail(ss))

A(v, n) == [t |-> "a", v |-> v, n |-> n]
Iw(v, n) == [t |-> "i", v |-> v, n |-> n]
Zw(v, n) == [t |-> "z", v |-> v, n |-> n]
Ew(num, den) == [t |-> "e", num |-> num, den |-> den, n |-> 14]
Fw(num, den, n, p) == [t |-> "f", num |-> num, den |-> den, n |-> n, p |-> p]
Bw(rows) == [t |-> "b", v |-> rows]

\* the field of variable s (1.. over sfc then lay), time t, level l (0 = surface):
\* integers with neighbour differences between 64 and 255 (exponent 7 or 8)
Field(c, s, t, l) ==
  [j \in 1..c.ny |-> [i \in 1..c.nx |->
     c.base[s] + 64 * ((3 * j + 2 * i + s + t + l) % 4) + ((j * i + t + 2 * l) % 7)]]
NVars(c) == Len(c.sfc) + Len(c.lay)
VarName(c, s) == IF s <= Len(c.sfc) THEN c.sfc[s] ELSE c.lay[s - Len(c.sfc)]

\* ---- time of step t : start + (t - 1) * dth hours (proleptic calendar)
\* two-digit years: 69-99 are 1969-1999, 00-68 are 2000-2068 (the POSIX %y rule)
Year4(yy) == IF yy >= 69 THEN 1900 + yy ELSE 2000 + yy
StartDay(c) == LET y0 == DaysBeforeYear("std", Year4(c.start[1])) IN
               y0 + (CHOOSE d \in 0..366 : Civil("std", y0 + d)[2] = c.start[2] /\ Civil("std", y0 + d)[3] = c.start[3])
InstOfStep(c, t) == NormInst(StartDay(c), (c.start[4] + (t - 1) * c.dth) * 3600, 0)
CivilOfStep(c, t) == CivilOf("std", InstOfStep(c, t))     \* <<y, m, d, H, M, S, us>>
TimeFields(c, t) == LET cv == CivilOfStep(c, t) IN
  << Zw(cv[1] % 100, 2), Zw(cv[2], 2), Zw(cv[3], 2), Zw(cv[4], 2), Zw(c.ff, 2) >>

\* ---- records
Packed(c, s, t, l) == Pack(Field(c, s, t, l))
Label(c, t, l, name, nexp, precnum, precden, var1) ==
  TimeFields(c, t) \o << Iw(l, 2), A("99", 2), A(name, 4), Iw(nexp, 4), Ew(precnum, precden), Ew(var1, 1) >>
\* precision = 2^nexp / 254
DataRecord(c, s, t, l) ==
  LET p == Packed(c, s, t, l) IN
  Label(c, t, l, VarName(c, s), p.nexp, Pow2(p.nexp), 254, p.var1) \o << Bw(p.bytes) >>
CheckSum(c, s, t, l) == ByteSum(Packed(c, s, t, l)) % 255
VarDefLevel(c, t, li) ==
  LET ss == IF li = 1 THEN [q \in 1..Len(c.sfc) |-> q] ELSE [q \in 1..Len(c.lay) |-> Len(c.sfc) + q] IN
  << A(c.levels[li].txt, 6), Iw(Len(ss), 2) >> \o
  FlattenSeqA([q \in 1..Len(ss) |-> << A(VarName(c, ss[q]), 4), Iw(CheckSum(c, ss[q], t, li - 1), 3), A(" ", 1) >>])
VarDefLen(c) == (8 + 8 * Len(c.sfc)) + (Len(c.levels) - 1) * (8 + 8 * Len(c.lay))
LenH(c) == 108 + VarDefLen(c)
RecLen(c) == 50 + c.nx * c.ny
IndexRecord(c, t) ==
  Label(c, t, 0, "INDX", 0, 0, 1, 0) \o
  << A("TEST", 4), Iw(0, 3), Iw(2, 2) >> \o
  \* pole lat/lon, reference lat/lon, grid size (0 = lat-lon grid), orientation, tangent
  \* latitude, synch x/y, synch lat/lon, reserved
  << Fw(90, 1, 7, 2), Fw(0, 1, 7, 2), Fw(1, 1, 7, 2), Fw(1, 1, 7, 2), Fw(0, 1, 7, 2), Fw(0, 1, 7, 2),
     Fw(0, 1, 7, 2), Fw(1, 1, 7, 2), Fw(1, 1, 7, 2), Fw(-10, 1, 7, 2), Fw(20, 1, 7, 2), Fw(0, 1, 7, 2) >> \o
  << Iw(c.nx, 3), Iw(c.ny, 3), Iw(Len(c.levels), 3), Iw(1, 2), Iw(LenH(c), 4) >> \o
  FlattenSeqA([li \in 1..Len(c.levels) |-> VarDefLevel(c, t, li)]) \o
  << A("", RecLen(c) - 158 - VarDefLen(c)) >>
TimeBlock(c, t) ==
  << IndexRecord(c, t) >> \o
  [s \in 1..Len(c.sfc) |-> DataRecord(c, s, t, 0)] \o
  FlattenSeqA([l \in 1..(Len(c.levels) - 1) |-> [q \in 1..Len(c.lay) |-> DataRecord(c, Len(c.sfc) + q, t, l)]])
ArlFile(c) == FlattenSeqA([t \in 1..c.nt |-> TimeBlock(c, t)])

\* ---- sizes
FieldBytes(f) == CASE f.t = "b" -> Len(f.v) * Len(f.v[1]) [] f.t = "e" -> 14 [] OTHER -> f.n
RECURSIVE RecBytesA(_)
RecBytesA(r) == IF Len(r) = 0 THEN 0 ELSE FieldBytes(Head(r)) + RecBytesA(Tail(r))
\* every record has the record length; the reader of the library reads LENH bytes
\* after the 158-byte fixed part, so the index record must hold them
AllRecordsSized(c) == \A r \in 1..Len(ArlFile(c)) : RecBytesA(ArlFile(c)[r]) = RecLen(c)
ReaderWindowFits(c) == 158 + LenH(c) <= RecLen(c)
RecordsPerTime(c) == 1 + Len(c.sfc) + (Len(c.levels) - 1) * Len(c.lay)

\* ---- what a reader must present
\* hours since the first time
HoursSince(c, t) == (t - 1) * c.dth
\* the unpacked field: the running reconstruction of the packing (exact)
ExpField(c, s, t, l) == Packed(c, s, t, l).recon
=================================================================================
