------------------------------- MODULE ArlPack_MC -------------------------------
(* All small fields over a lattice finer than the quantisation step whose     *)
(* largest neighbour difference is near 2^9 (step = 4 units), both signs.     *)
EXTENDS ArlPack, Json, IOUtils
Neg(a) == 0 - a
Small == 0..8
BigNeg == {Neg(k) : k \in 470..515}
BigPos == 470..515
Rows3 == {<< <<0, a, b>> >> : a \in Small, b \in BigNeg \cup BigPos}
Rows4 == {<< <<0, a, b, c>> >> : a \in {0, 2, 3}, b \in {Neg(509), Neg(510), Neg(511), 509, 510, 511}, c \in {Neg(6), 0, 5}}
F22 == {<< <<0, a>>, <<b, c>> >> : a \in {0, 2, 3, 5}, b \in {Neg(508), Neg(509), Neg(510), Neg(511), 508, 511}, c \in {Neg(515), Neg(2), 0, 3, 400}}
F32 == {<< <<0, a>>, <<b, b + 1>>, <<c, c - 2>> >> : a \in {1, 2}, b \in {Neg(300), 300}, c \in {Neg(511), 0, 211, 511}}
Fields == Rows3 \cup Rows4 \cup F22 \cup F32

VARIABLE f
Init == f \in Fields
Next == UNCHANGED f
Spec == Init /\ [][Next]_f

InvNoWrap == NoWrap(Pack(f))
InvFirstExact == FirstExact(f, Pack(f))
InvWithinOneStep == WithinOneStep(f, Pack(f))
\* what the model proves about the offenders: the bound fails only where the
\* byte is cut off at 0, and never by more than 1.5 steps
InvOffendersAreCutOff == \A o \in Offenders(f, Pack(f)) :
  /\ Pack(f).bytes[o[1]][o[2]] = 0
  /\ 2 * AbsA(Pack(f).recon[o[1]][o[2]] - f[o[1]][o[2]]) <= 3 * Pack(f).step
InvStepIs4 == Pack(f).step \in {2, 4, 8, 16}
EmitConstraint == IF IOEnv.PNC_EMIT = "1" THEN PrintT(ToJson([f |-> f])) ELSE TRUE
=================================================================================
