SPECIFICATION Spec
INVARIANT WLaws
INVARIANT CLaws
INVARIANT ResigmaLaws
CONSTRAINT EmitConstraint
CHECK_DEADLOCK FALSE
