SPECIFICATION Spec
INVARIANT WLaws
INVARIANT CLaws
CONSTRAINT EmitConstraint
CHECK_DEADLOCK FALSE
