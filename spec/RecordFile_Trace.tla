---------------------------- MODULE RecordFile_Trace ----------------------------
(* Trace validation for the record cursor (C13): each trace is one sequence of *)
(* calls replayed on a real FortranFileUtil.RecordFile over a file written     *)
(* from the model's record lengths; after every call the driver logs           *)
(* (tell, record_start, record_size, return value | exception).               *)
EXTENDS RecordFile, TraceLib

VARIABLES tid, l, cur
tvars == <<tid, l, cur, vars>>

TInit == /\ tid \in 1..NTraces /\ l = 0
         /\ cur = Cur(4, 0, Traces[tid].lens[1], "none")
         \* the model's own variables are not used: the cursor is carried in cur
         /\ lens = <<>> /\ pos = 0 /\ rstart = 0 /\ rsize = 0 /\ ret = "none" /\ ops = <<>>

TStep ==
  LET tr == Traces[tid] IN
  IF l = 0 /\ ~(tr.init.pos = cur.pos /\ tr.init.rstart = cur.rstart /\ tr.init.rsize = cur.rsize)
  THEN Chk(tr, 0, "cursor after opening", tr.init, [pos |-> cur.pos, rstart |-> cur.rstart, rsize |-> cur.rsize])
       /\ UNCHANGED tvars
  ELSE
  LET e == tr.steps[l + 1]
      d == Apply(e.op, tr.lens, cur)
  IN /\ l < Len(tr.steps)
     /\ l' = l + 1 /\ tid' = tid /\ UNCHANGED vars
     /\ ChkT(tr, l + 1, "driver issued a call the specification leaves undefined: " \o e.op,
             e.op \in Ops /\ Defined(e.op, tr.lens, cur))
     /\ Chk(tr, l + 1, "exception raised by " \o e.op, e.exc, "")
     /\ Chk(tr, l + 1, "return value of " \o e.op, e.ret, d.ret)
     /\ Chk(tr, l + 1, "file position after " \o e.op, e.pos, d.pos)
     /\ Chk(tr, l + 1, "record_start after " \o e.op, e.rstart, d.rstart)
     /\ Chk(tr, l + 1, "record_size after " \o e.op, e.rsize, d.rsize)
     /\ cur' = d
     /\ (l + 1 = Len(tr.steps) => TrAccept(tr))

TSpec == TInit /\ [][TStep]_tvars
=================================================================================
