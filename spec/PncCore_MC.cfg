SPECIFICATION Spec
INVARIANT Inv_WellFormed
INVARIANT Law_IdentitySlice
INVARIANT Law_StackSplit
INVARIANT Law_CommutingReducers
INVARIANT Law_SingleListOrtho
PROPERTY UnlimitedKeptProp
CONSTRAINT EmitConstraint
CHECK_DEADLOCK FALSE
