------------------------------ MODULE NcStore_Trace ------------------------------
(* Trace validation for C07: a generated file, saved in a netCDF flavour,     *)
(* closed, reopened (named format and auto-detection) and projected.          *)
EXTENDS NcStore, TraceLib
NVar(j) ==
  [name |-> j.name, dims |-> j.dims, shape |-> j.shape, dt |-> j.dt, masked |-> j.masked,
   enc |-> j.enc, vals |-> j.cells, mask |-> [k \in 1..Len(j.mask) |-> j.mask[k] = 1], attrs |-> j.attrs]
NFile(j) == [dims |-> j.dims, vars |-> [i \in 1..Len(j.vars) |-> NVar(j.vars[i])],
             attrs |-> j.attrs, coords |-> j.coords, cls |-> j.cls]
VARIABLES tid, l
tvars == <<tid, l>>
TInit == tid \in 1..NTraces /\ l = 0
ChkS(tr, ll, what, diag) ==
  IF diag = "" THEN TRUE
  ELSE Say([v |-> "MISMATCH", tid |-> tr.tid, l |-> ll, what |-> what, diag |-> diag]) /\ FALSE
TStep ==
  LET tr == Traces[tid]
      orig == NFile(tr.orig)
  IN /\ l = 0 /\ l' = 1 /\ tid' = tid
     /\ IF tr.res = "raised"
        THEN ChkS(tr, 1, "save of a representable file raised", IF Representable(orig, tr.flavour) THEN tr.exc ELSE "")
        ELSE /\ ChkS(tr, 1, "reopen(save(f)) with format named (" \o tr.flavour \o ")", StoreDiff(NFile(tr.reopened), orig))
             /\ ChkS(tr, 1, "reopen(save(f)) auto-detected (" \o tr.flavour \o ")", StoreDiff(NFile(tr.reopened_auto), orig))
     /\ TrAccept(tr)
TSpec == TInit /\ [][TStep]_tvars
=================================================================================
