-------------------------------- MODULE RecordFile --------------------------------
(* The cursor automaton of FortranFileUtil.RecordFile, on which the sequential  *)
(* CAMx readers are built (C13, C09).  A file is a sequence of Fortran records;  *)
(* lens[i] is the payload length in bytes of record i.  The cursor keeps        *)
(*   pos           file position (tell)                                         *)
(*   rstart, rsize start offset and payload size of the current record          *)
(* Actions: Next, Previous, Restart, Skip4 (unpack one 4-byte item of the       *)
(* payload).  ret is the value the call returned.                               *)
EXTENDS Integers, Sequences, TLC

CONSTANTS Lens, MaxOps, Dev   \* Dev: "none" or the name of a seeded deviation (sharpness runs)
VARIABLES lens, pos, rstart, rsize, ret, ops
vars == <<lens, pos, rstart, rsize, ret, ops>>

RECURSIVE StartOf(_, _)
StartOf(ls, i) == IF i = 1 THEN 0 ELSE StartOf(ls, i - 1) + ls[i - 1] + 8
Length(ls) == StartOf(ls, Len(ls) + 1)
Starts(ls) == {StartOf(ls, i) : i \in 1..Len(ls)}
IndexAt(ls, s) == CHOOSE i \in 1..Len(ls) : StartOf(ls, i) = s

Init == /\ lens \in Lens /\ pos = 4 /\ rstart = 0 /\ rsize = lens[1]
        /\ ret = "none" /\ ops = <<>>

\* ---- the calls as functions of (file, cursor) -> cursor + return value ----
Cur(p, s, z, r) == [pos |-> p, rstart |-> s, rsize |-> z, ret |-> r]
NewRec(ls, off, r) == Cur(off + 4, off, IF off \in Starts(ls) THEN ls[IndexAt(ls, off)] ELSE -1, r)
EofOf(ls, c) == c.pos = Length(ls)

NextF(ls, c) ==
  LET off == c.rstart + c.rsize + (IF Dev = "next_ignores_trailer" THEN 4 ELSE 8) IN
  IF off < Length(ls) THEN NewRec(ls, off, "true")
  ELSE Cur(Length(ls), c.rstart, c.rsize, "false")

\* previous() is defined when the cursor is at the start of the payload of the
\* current record, or at the end of the file
PreviousDefinedF(ls, c) == c.pos = c.rstart + 4 \/ EofOf(ls, c)
PreviousF(ls, c) ==
  IF c.pos = 4 THEN Cur(c.pos, c.rstart, c.rsize, "false")
  ELSE IF EofOf(ls, c)
       THEN \* from the end of the file: back to the start of the last record
            NewRec(ls, StartOf(ls, IF Dev = "previous_from_eof_skips" /\ Len(ls) > 1 THEN Len(ls) - 1 ELSE Len(ls)), "true")
       ELSE NewRec(ls, StartOf(ls, IndexAt(ls, c.rstart) - 1), "true")

RestartF(ls, c) == NewRec(ls, c.rstart, "none")

\* read one 4-byte item of the current payload
Skip4Defined(ls, c) == ~EofOf(ls, c) /\ c.pos + 4 <= c.rstart + 4 + c.rsize
Skip4F(ls, c) == Cur(c.pos + 4, c.rstart, c.rsize, "none")

\* read(fmt) of a whole 4-byte item followed by the implicit next()
ReadDefined(ls, c) == Skip4Defined(ls, c)
ReadF(ls, c) == LET d == NextF(ls, Skip4F(ls, c)) IN Cur(d.pos, d.rstart, d.rsize, "none")

EofF(ls, c) == Cur(c.pos, c.rstart, c.rsize, IF EofOf(ls, c) THEN "true" ELSE "false")

Defined(op, ls, c) == CASE op = "previous" -> PreviousDefinedF(ls, c)
                        [] op = "skip4" -> Skip4Defined(ls, c)
                        [] op = "read" -> ReadDefined(ls, c)
                        [] OTHER -> TRUE
Apply(op, ls, c) == CASE op = "next" -> NextF(ls, c)
                      [] op = "previous" -> PreviousF(ls, c)
                      [] op = "restart" -> RestartF(ls, c)
                      [] op = "skip4" -> Skip4F(ls, c)
                      [] op = "read" -> ReadF(ls, c)
                      [] op = "eof" -> EofF(ls, c)
Ops == {"next", "previous", "restart", "skip4", "read", "eof"}

Cursor == Cur(pos, rstart, rsize, ret)
AtEof == EofOf(lens, Cursor)
Do(op) == /\ Defined(op, lens, Cursor)
          /\ LET d == Apply(op, lens, Cursor) IN
               pos' = d.pos /\ rstart' = d.rstart /\ rsize' = d.rsize /\ ret' = d.ret
          /\ ops' = Append(ops, op) /\ UNCHANGED lens
Next_ == Do("next")
Previous_ == Do("previous")
Restart_ == Do("restart")
Skip4_ == Do("skip4")
Read_ == Do("read")
Eof_ == Do("eof")

Step == Next_ \/ Previous_ \/ Restart_ \/ Skip4_ \/ Read_ \/ Eof_
Spec == Init /\ [][Len(ops) < MaxOps /\ Step]_vars

\* ---- invariants ----------------------------------------------------------
CursorOnRecord == rstart \in Starts(lens) /\ rsize = lens[IndexAt(lens, rstart)]
PosInside == AtEof \/ (pos >= rstart + 4 /\ pos <= rstart + 4 + rsize)
\* next() is false exactly on the last record
NextFalseOnlyAtEnd == (Len(ops) > 0 /\ ops[Len(ops)] = "next") =>
                        (ret = "false" <=> AtEof)
\* previous() after next() failed on the last record stays on that record
PrevAfterFailedNext ==
  [][(Len(ops) > 0 /\ ops[Len(ops)] = "next" /\ ret = "false" /\ Previous_) =>
       (rstart' = rstart /\ pos' = rstart + 4)]_vars
\* eof() answers the position question
EofTruthful == (Len(ops) > 0 /\ ops[Len(ops)] = "eof") => (ret = "true" <=> pos = Length(lens))
\* a forward scan by next() visits every record exactly once, in order
ScanVisitsAll ==
  (Len(ops) > 0 /\ \A i \in 1..Len(ops) : ops[i] = "next") =>
     IF Len(ops) < Len(lens) THEN rstart = StartOf(lens, Len(ops) + 1) /\ ret = "true"
     ELSE rstart = StartOf(lens, Len(lens)) /\ ret = "false"
\* previous after a successful next returns to the record it came from
PrevUndoesNext ==
  [][(Len(ops) > 0 /\ ops[Len(ops)] = "next" /\ ret = "true" /\ Previous_) =>
       rstart' = StartOf(lens, IndexAt(lens, rstart) - 1)]_vars
=================================================================================
