-------------------------------- MODULE RecordFile --------------------------------
(* The cursor automaton of FortranFileUtil.RecordFile, on which the sequential  *)
(* CAMx readers are built (C13, C09).  A file is a sequence of Fortran records;  *)
(* lens[i] is the payload length in bytes of record i.  The cursor keeps        *)
(*   pos           file position (tell)                                         *)
(*   rstart, rsize start offset and payload size of the current record          *)
(* Actions: Next, Previous, Restart, Skip4 (unpack one 4-byte item of the       *)
(* payload).  ret is the value the call returned.                               *)
EXTENDS Integers, Sequences, TLC

CONSTANTS Lens, MaxOps
VARIABLES lens, pos, rstart, rsize, ret, ops
vars == <<lens, pos, rstart, rsize, ret, ops>>

RECURSIVE StartOf(_, _)
StartOf(ls, i) == IF i = 1 THEN 0 ELSE StartOf(ls, i - 1) + ls[i - 1] + 8
Length(ls) == StartOf(ls, Len(ls) + 1)
Starts(ls) == {StartOf(ls, i) : i \in 1..Len(ls)}
IndexAt(ls, s) == CHOOSE i \in 1..Len(ls) : StartOf(ls, i) = s

Init == /\ lens \in Lens /\ pos = 4 /\ rstart = 0 /\ rsize = lens[1]
        /\ ret = "none" /\ ops = <<>>

NewRecord(off) == rstart' = off /\ rsize' = lens[IndexAt(lens, off)] /\ pos' = off + 4

Next_ ==
  /\ LET off == rstart + rsize + 8 IN
     IF off < Length(lens) THEN NewRecord(off) /\ ret' = "true"
     ELSE pos' = Length(lens) /\ UNCHANGED <<rstart, rsize>> /\ ret' = "false"
  /\ ops' = Append(ops, "next") /\ UNCHANGED lens

AtEof == pos = Length(lens)
\* previous() is defined when the cursor is at the start of the payload of the
\* current record, or at the end of the file
PreviousDefined == pos = rstart + 4 \/ AtEof
Previous_ ==
  /\ PreviousDefined
  /\ IF pos = 4 THEN UNCHANGED <<pos, rstart, rsize>> /\ ret' = "false"
     ELSE IF AtEof
          THEN \* from the end of the file: back to the start of the last record
               NewRecord(StartOf(lens, Len(lens))) /\ ret' = "true"
          ELSE NewRecord(StartOf(lens, IndexAt(lens, rstart) - 1)) /\ ret' = "true"
  /\ ops' = Append(ops, "previous") /\ UNCHANGED lens

Restart_ == NewRecord(rstart) /\ ret' = "none" /\ ops' = Append(ops, "restart") /\ UNCHANGED lens

\* read one 4-byte item of the current payload
Skip4_ == /\ ~AtEof /\ pos + 4 <= rstart + 4 + rsize
          /\ pos' = pos + 4 /\ UNCHANGED <<rstart, rsize, lens>> /\ ret' = "none"
          /\ ops' = Append(ops, "skip4")

Step == Next_ \/ Previous_ \/ Restart_ \/ Skip4_
Spec == Init /\ [][Len(ops) < MaxOps /\ Step]_vars

\* ---- invariants ----------------------------------------------------------
CursorOnRecord == rstart \in Starts(lens) /\ rsize = lens[IndexAt(lens, rstart)]
PosInside == AtEof \/ (pos >= rstart + 4 /\ pos <= rstart + 4 + rsize)
\* next() is false exactly on the last record
NextFalseOnlyAtEnd == (Len(ops) > 0 /\ ops[Len(ops)] = "next") =>
                        (ret = "false" <=> AtEof)
\* previous after a successful next returns to the record it came from
PrevUndoesNext ==
  [][(Len(ops) > 0 /\ ops[Len(ops)] = "next" /\ ret = "true" /\ Previous_) =>
       rstart' = StartOf(lens, IndexAt(lens, rstart) - 1)]_vars
=================================================================================
