--------------------------------- MODULE Interp ---------------------------------
(* C17: linear interpolation weights and mass-conserving vertical regridding  *)
(* in exact rational arithmetic.                                              *)
(*   Weights(xs, nxs, ex)[i][j] : weight of source level i for target point j *)
(*   Overlap(F, T)[l][j]        : fraction of source layer l (edges F[l],     *)
(*                                F[l+1]) that lies inside target layer j     *)
(* Coordinates are integers (sigma edges are given in 1/K units).             *)
EXTENDS PncValues

\* positions of xs in ascending order (xs strictly monotone either way)
AscIdx(xs) == IF xs[1] < xs[Len(xs)] THEN [i \in 1..Len(xs) |-> i]
              ELSE [i \in 1..Len(xs) |-> Len(xs) + 1 - i]

\* the segment (in ascending position p, p+1) used for target x: the bracketing
\* one, or the end segment beyond the range
Seg(xs, x) ==
  LET n == Len(xs) a == AscIdx(xs)
      inside == {p \in 1..(n - 1) : xs[a[p]] <= x /\ x <= xs[a[p + 1]]}
  IN IF inside # {} THEN CHOOSE p \in inside : \A q \in inside : p <= q
     ELSE IF x < xs[a[1]] THEN 1 ELSE n - 1

\* weight of source level i (original order) for target x
W1(xs, x, ex, i) ==
  LET n == Len(xs) a == AscIdx(xs) p == Seg(xs, x)
      lo == xs[a[p]] hi == xs[a[p + 1]]
      \* not extrapolating: points beyond the range take the end value
      xc == IF ex THEN x ELSE (IF x < xs[a[1]] THEN xs[a[1]] ELSE IF x > xs[a[n]] THEN xs[a[n]] ELSE x)
  IN IF i = a[p] THEN Rat(hi - xc, hi - lo)
     ELSE IF i = a[p + 1] THEN Rat(xc - lo, hi - lo)
     ELSE RInt(0)

Weights(xs, nxs, ex) == [i \in 1..Len(xs) |-> [j \in 1..Len(nxs) |-> W1(xs, nxs[j], ex, i)]]

ColSum(w, j) == RSumSeq([i \in 1..Len(w) |-> w[i][j]])
\* ---- the laws of the property
NonNegative(w) == \A i \in 1..Len(w) : \A j \in 1..Len(w[i]) : w[i][j].n >= 0
PartitionOfUnity(w) == \A j \in 1..Len(w[1]) : ColSum(w, j) = RInt(1)
\* reproduces the linear profile a*x + b at every target that is not clamped
LinearExact(xs, nxs, w, a, b, ex) ==
  \A j \in 1..Len(nxs) :
    (ex \/ (MinI(xs[1], xs[Len(xs)]) <= nxs[j] /\ nxs[j] <= MaxI(xs[1], xs[Len(xs)]))) =>
      RSumSeq([i \in 1..Len(xs) |-> RMul(w[i][j], RInt(a * xs[i] + b))]) = RInt(a * nxs[j] + b)
Identity(w) == \A i \in 1..Len(w) : \A j \in 1..Len(w[i]) : w[i][j] = RInt(IF i = j THEN 1 ELSE 0)

\* ---------------------------------------------------------- conservative
\* sigma edges descend (1 -> 0); layer l spans F[l] .. F[l+1]
OverlapLen(a1, a2, b1, b2) ==   \* a1 > a2, b1 > b2
  LET top == MinI(a1, b1) bot == MaxI(a2, b2) IN IF top > bot THEN top - bot ELSE 0
Overlap(F, T) == [l \in 1..(Len(F) - 1) |-> [j \in 1..(Len(T) - 1) |->
                    Rat(OverlapLen(F[l], F[l + 1], T[j], T[j + 1]), F[l] - F[l + 1])]]
Thick(E, k) == E[k] - E[k + 1]
\* regridded value of target layer j for source values v (thickness-weighted mean)
Regrid(F, T, v, j) ==
  RDiv(RSumSeq([l \in 1..(Len(F) - 1) |-> RMul(RMul(RInt(v[l]), RInt(Thick(F, l))), Overlap(F, T)[l][j])]),
       RSumSeq([l \in 1..(Len(F) - 1) |-> RMul(RInt(Thick(F, l)), Overlap(F, T)[l][j])]))
SharedEnds(F, T) == F[1] = T[1] /\ F[Len(F)] = T[Len(T)]
\* ---- a file's sigma edges relative to another model top.  sigma = (p - top) /
\* (P - top) with P = 101325 Pa: edges F (in 1/K units) of a file with top vt0
\* are, relative to top vt1, (F (P - vt0) + K (vt0 - vt1)) / (K (P - vt1));
\* Resigma gives them in 1/K2 units (ResigmaExact: they are integers there)
PSurf == 101325
ResigmaNum(F, K, K2, vt0, vt1, k) == K2 * (F[k] * (PSurf - vt0) + K * (vt0 - vt1))
ResigmaExact(F, K, K2, vt0, vt1) == \A k \in 1..Len(F) : ResigmaNum(F, K, K2, vt0, vt1, k) % (K * (PSurf - vt1)) = 0
Resigma(F, K, K2, vt0, vt1) == [k \in 1..Len(F) |-> ResigmaNum(F, K, K2, vt0, vt1, k) \div (K * (PSurf - vt1))]

\* laws
RowsSumToOne(F, T) == \A l \in 1..(Len(F) - 1) :
  RSumSeq([j \in 1..(Len(T) - 1) |-> Overlap(F, T)[l][j]]) = RInt(1)
ThicknessMatches(F, T) == \A j \in 1..(Len(T) - 1) :
  RSumSeq([l \in 1..(Len(F) - 1) |-> RMul(RInt(Thick(F, l)), Overlap(F, T)[l][j])]) = RInt(Thick(T, j))
ColumnConserved(F, T, v) ==
  RSumSeq([j \in 1..(Len(T) - 1) |-> RMul(Regrid(F, T, v, j), RInt(Thick(T, j)))])
    = RSumSeq([l \in 1..(Len(F) - 1) |-> RInt(v[l] * Thick(F, l))])
ConstantKept(F, T, c) == \A j \in 1..(Len(T) - 1) :
  Regrid(F, T, [l \in 1..(Len(F) - 1) |-> c], j) = RInt(c)
=================================================================================
