---------------------------- MODULE NcHandles_Trace ----------------------------
(* Trace validation for the handle-table half of C05.  Each trace is one      *)
(* open/close/drop/collect schedule replayed on real disk-backed files.  A    *)
(* logged step is the spec action followed by the finalisers that the         *)
(* runtime ran during that step (observed through weak references).           *)
EXTENDS NcHandles, TraceLib, FiniteSetsExt

TObjs == {"A", "B", "C"}
TIds == 1..60

VARIABLES tid, l
tvars == <<st, reach, fin, id, owner, steps, tid, l>>

TInit == /\ tid \in 1..NTraces /\ l = 0 /\ Init

SeqToSet(s) == {s[i] : i \in 1..Len(s)}

\* state after the finalisers of the objects in S have run (specified
\* semantics: each releases only what it still owns, so order is irrelevant)
AfterFinalise(S, st1, reach1, fin1, owner1) ==
  [fin |-> [o \in Objs |-> fin1[o] \/ o \in S],
   owner |-> [i \in Ids |-> IF owner1[i] \in S THEN NoObj ELSE owner1[i]]]

TStep ==
  LET tr == Traces[tid]
      e == tr.steps[l + 1]
      o == e.o
      dead == SeqToSet(e.dead)
      \* the user-level action
      st1 == CASE e.a = "open" -> [st EXCEPT ![o] = "open"]
               [] e.a = "close" -> [st EXCEPT ![o] = "closed"]
               [] OTHER -> st
      reach1 == CASE e.a = "open" -> [reach EXCEPT ![o] = TRUE]
                  [] e.a = "drop" -> [reach EXCEPT ![o] = FALSE]
                  [] OTHER -> reach
      id1 == IF e.a = "open" THEN [id EXCEPT ![o] = e.id] ELSE id
      owner1 == CASE e.a = "open" -> [owner EXCEPT ![e.id] = o]
                  [] e.a = "close" -> [i \in Ids |-> IF owner[i] = o THEN NoObj ELSE owner[i]]
                  [] OTHER -> owner
      af == AfterFinalise(dead, st1, reach1, fin, owner1)
  IN /\ l < Len(tr.steps)
     /\ l' = l + 1 /\ tid' = tid
     \* enabling conditions of the spec action
     /\ CASE e.a = "open" ->
              /\ ChkT(tr, l + 1, "open of an object that is not unborn", st[o] = "unborn")
              /\ ChkT(tr, l + 1, "library handed out an id the model holds as owned (handle table out of sync)", owner[e.id] = NoObj)
          [] e.a = "close" -> ChkT(tr, l + 1, "close enabled", st[o] # "unborn" /\ reach[o])
          [] e.a = "drop" -> ChkT(tr, l + 1, "drop enabled", st[o] # "unborn" /\ reach[o])
          [] e.a = "collect" -> TRUE
     \* only unreachable, not yet finalised objects can be finalised
     /\ ChkT(tr, l + 1, "finalised object was reachable or already finalised",
             \A d \in dead : ~reach1[d] /\ ~fin[d] /\ st1[d] # "unborn")
     /\ st' = st1 /\ reach' = reach1 /\ id' = id1
     /\ fin' = af.fin /\ owner' = af.owner
     /\ steps' = steps
     \* the property, on the real observation: every object the program holds
     \* open is readable and presents its own file's data
     /\ \A p \in Objs :
          (st1[p] = "open" /\ reach1[p]) =>
            /\ ChkT(tr, l + 1, "model: open object lost its handle", af.owner[id1[p]] = p)
            /\ Chk(tr, l + 1, "read of open object " \o p, e.read[p], tr.base[p])
     /\ (l + 1 = Len(tr.steps) => TrAccept(tr))

TSpec == TInit /\ [][TStep]_tvars
=================================================================================
