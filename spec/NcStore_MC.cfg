SPECIFICATION Spec
INVARIANT InvMaskSurvives
CONSTRAINT EmitConstraint
CHECK_DEADLOCK FALSE
