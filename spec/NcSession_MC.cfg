SPECIFICATION SSpec
CONSTANTS
  DimNamesU <- MCDimNames
  StickyUnlimited <- MCStickyU
  MaxSaves = 3
INVARIANT HistoryFree
CONSTRAINT EmitConstraint
CHECK_DEADLOCK FALSE
