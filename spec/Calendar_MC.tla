------------------------------ MODULE Calendar_MC ------------------------------
(* Exhaustive check of the calendar operators over every day number of        *)
(* 1900-01-01 .. 2101-12-31 (and the corresponding ranges of the 365- and      *)
(* 366-day calendars): civil <-> day number round trip, successor-day rule,   *)
(* YYYYJJJ and HHMMSS codecs.  The state is just the day number.              *)
EXTENDS Calendar, IOUtils
VARIABLE n
MaxDay == 73800
\* every day number is an initial state (checked in parallel); no transitions
\* quick: the years around 1900, 1999-2001, 2099-2101 and every 5th day elsewhere
QuickDays == (0..800) \cup (35800..37300) \cup (72300..MaxDay) \cup {5 * k : k \in 0..(MaxDay \div 5)}
Init == n \in (IF IOEnv.PNC_CAL_RANGE = "quick" THEN QuickDays ELSE 0..MaxDay)
Next == UNCHANGED n
Spec == Init /\ [][Next]_n

RoundTrip == \A cal \in Cals : LET c == Civil(cal, n) IN
  /\ ValidDate(cal, c[1], c[2], c[3])
  /\ DayNum(cal, c[1], c[2], c[3]) = n
Successor == \A cal \in Cals :
  LET c == Civil(cal, n) d == Civil(cal, n + 1) IN
  \/ (d[1] = c[1] /\ d[2] = c[2] /\ d[3] = c[3] + 1)
  \/ (d[1] = c[1] /\ d[2] = c[2] + 1 /\ d[3] = 1 /\ c[3] = MonthLen(cal, c[1], c[2]))
  \/ (d[1] = c[1] + 1 /\ d[2] = 1 /\ d[3] = 1 /\ c[2] = 12 /\ c[3] = 31)
Julian == /\ JulToDay(DayToJul(n)) = n
          /\ DayToJul(n) % 1000 \in 1..DaysInYear("std", DayToJul(n) \div 1000)
          \* a day-of-year beyond the year length runs into the next year
          /\ JulToDay((DayToJul(n) \div 1000) * 1000 + DaysInYear("std", DayToJul(n) \div 1000) + 1)
               = DaysBeforeYear("std", DayToJul(n) \div 1000 + 1)
Hms == LET s == (n * 37) % 86400 IN HmsToSec(SecToHms(s)) = s /\ SecToHms(s) % 100 < 60 /\ (SecToHms(s) \div 100) % 100 < 60
YearLengths == \A cal \in Cals : LET y == YearOf(cal, n) IN
  DaysBeforeYear(cal, y + 1) - DaysBeforeYear(cal, y) = DaysInYear(cal, y)
AddUnitsLaw == \A u \in {"days", "hours", "minutes", "seconds"} :
  LET t == AddUnits(<<n, 3600, 0>>, u, 25, 2) IN t[2] \in 0..86399 /\ t[3] \in 0..999999 /\ InstLe(<<n, 3600, 0>>, t)
=================================================================================
