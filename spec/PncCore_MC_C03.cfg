SPECIFICATION Spec
INVARIANT Inv_WellFormed
INVARIANT Law_CommutingReducers
CONSTRAINT EmitConstraint
CHECK_DEADLOCK FALSE
