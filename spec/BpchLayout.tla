-------------------------------- MODULE BpchLayout --------------------------------
(* C18: the GEOS-Chem binary punch layout as a record grammar (see CamxLayout  *)
(* for the field kinds; two more are used here: [t |-> "s", v : characters,    *)
(* n : bytes] a blank-padded string and [t |-> "d", v] a 64-bit float with an  *)
(* integer value).                                                             *)
(*   R[40]{ftype S40}  R[80]{title S80}                                        *)
(*   per time block, per tracer:                                               *)
(*     R[36]{modelname S20, resolution 2 f4, halfpolar i4, center180 i4}       *)
(*     R[168]{category S40, tracer i4, unit S40, tau0 f8, tau1 f8,             *)
(*            reserved S40, ni nj nl i0 j0 l0 (6 i4), skip i4}                 *)
(*     R[4 ni nj nl]{data f4 [nl][nj][ni]}     skip = 4 ni nj nl + 8           *)
(* configuration c: c.tr sequence of tracers [cat, id, unit, nl, name, scale2] *)
(* (cat/unit/name as character sequences; the table scale is 2^scale2),       *)
(* c.ni, c.nj, c.i0, c.j0, c.l0 (window origin, 1-based; l0 > 1: level-range   *)
(* output), c.nt ; tau0 of block t is c.tau + 24 (t - 1).                     *)
(* tr.off is the category offset of diaginfo; tr.intab tells whether the tracer *)
(* table has a line for off + id (if not, the reader names the variable after  *)
(* the bare tracer id and must not scale it: scale 1, unit of the data header). *)
EXTENDS CamxLayout

S(chars, n) == [t |-> "s", v |-> chars, n |-> n]
Dbl(v) == [t |-> "d", v |-> v]
FieldBytes(f) == CASE f.t = "s" -> f.n [] f.t = "d" -> 8 [] OTHER -> 4
RECURSIVE RecPayload(_)
RecPayload(r) == IF Len(r) = 0 THEN 0 ELSE FieldBytes(Head(r)) + RecPayload(Tail(r))

\* data token of tracer s, block t, layer l, latitude j, longitude i
BGrid(c, s, t) == [q \in 1..(c.tr[s].nl * c.nj * c.ni) |->
  LET i == ((q - 1) % c.ni) + 1
      j == (((q - 1) \div c.ni) % c.nj) + 1
      l == ((q - 1) \div (c.ni * c.nj)) + 1
  IN F(Token(s, t, l, j, i))]
\* cumulative averages (c.cum): every block starts at c.tau and ends later than the one before
Tau0(c, t) == IF c.cum THEN c.tau ELSE c.tau + 24 * (t - 1)
Tau1(c, t) == c.tau + 24 * t
Skip(c, s) == 4 * c.ni * c.nj * c.tr[s].nl + 8

BpchBlock(c, s, t) ==
  << << S(<<"G","E","O","S","5","_","4","7","L">>, 20), F(4), F(5), I(0), I(1) >>,
     << S(c.tr[s].cat, 40), I(c.tr[s].id), S(c.tr[s].unit, 40), Dbl(Tau0(c, t)), Dbl(Tau1(c, t)),
        S(<<>>, 40), I(c.ni), I(c.nj), I(c.tr[s].nl), I(c.i0), I(c.j0), I(c.l0), I(Skip(c, s)) >>,
     BGrid(c, s, t) >>
BpchLayout(c) ==
  << << S(<<"C","T","M"," ","b","i","n"," ","0","2">>, 40) >>, << S(<<"v","e","r","i","f">>, 80) >> >>
  \o FlattenSeq([t \in 1..c.nt |-> FlattenSeq([s \in 1..Len(c.tr) |-> BpchBlock(c, s, t)])])

\* ---- invariants of the layout
HeaderSizes(c) == \A t \in 1..c.nt : \A s \in 1..Len(c.tr) :
  /\ RecPayload(BpchBlock(c, s, t)[1]) = 36
  /\ RecPayload(BpchBlock(c, s, t)[2]) = 168
  /\ RecPayload(BpchBlock(c, s, t)[3]) + 8 = Skip(c, s)
RECURSIVE SumPayload(_)
SumPayload(rs) == IF Len(rs) = 0 THEN 0 ELSE RecPayload(Head(rs)) + 8 + SumPayload(Tail(rs))
BpchBytes(c) == SumPayload(BpchLayout(c))

\* ---- the header walk of the memory-mapped reader: advance by header + skip
\* until the first (category, tracer) pair repeats or the file ends; the number
\* of headers passed is the number of tracers of one time block
RECURSIVE Walk(_, _, _)
Walk(c, k, seen) ==     \* k : index of the next data block (1-based, block-major)
  IF k > c.nt * Len(c.tr) THEN Len(seen)
  ELSE LET s == ((k - 1) % Len(c.tr)) + 1
           key == <<c.tr[s].cat, c.tr[s].id>>
       IN IF \E q \in 1..Len(seen) : seen[q] = key THEN Len(seen)
          ELSE Walk(c, k + 1, Append(seen, key))
WalkFindsBlock(c) == Walk(c, 1, <<>>) = Len(c.tr)
\* one time block in bytes, and the number of complete blocks in the first n bytes
BlockSize(c) == SumPayload(FlattenSeq([s \in 1..Len(c.tr) |-> BpchBlock(c, s, 1)]))
CompleteBlocks(c, n) == IF n < 136 THEN 0 ELSE (n - 136) \div BlockSize(c)

\* ---- the memory-mapped reader on the first n bytes of a file (C14)
\* pos[s + 1]: offset after the s-th tracer block of the first time block
TracerBytes(c, s) == 44 + 176 + Skip(c, s)
RECURSIVE PosAfter(_, _)
PosAfter(c, s) == IF s = 0 THEN 136 ELSE PosAfter(c, s - 1) + TracerBytes(c, s)
PosSeq(c) == [q \in 1..(Len(c.tr) + 1) |-> PosAfter(c, q - 1)]
\* the header walk: K tracers have been passed; a further header (the next
\* tracer, or the repeat of the first one) is read only while the offset is
\* inside the file, and must then be mappable (220 bytes); -1 = error
RECURSIVE Discover(_, _, _, _)
Discover(pos, ntr, n, K) ==
  IF pos[K + 1] >= n THEN K
  ELSE IF pos[K + 1] + 220 > n THEN -1
  ELSE IF K = ntr THEN K
  ELSE Discover(pos, ntr, n, K + 1)
BpchOpenZ(pos, ntr, n) ==
  IF n < 136 + 220 THEN [k |-> "Err", n |-> 0, K |-> 0]
  ELSE LET K == Discover(pos, ntr, n, 1) IN
       IF K = -1 THEN [k |-> "Err", n |-> 0, K |-> 0]
       ELSE LET steps == (n - 136) \div (pos[K + 1] - 136) IN
            IF steps = 0 THEN [k |-> "Err", n |-> 0, K |-> 0] ELSE [k |-> "Steps", n |-> steps, K |-> K]
BpchOpenF(c, n) == BpchOpenZ(PosSeq(c), Len(c.tr), n)
=================================================================================
