SPECIFICATION TSpec
CONSTANTS
  Objs <- TObjs
  Ids <- TIds
  StaleClose = FALSE
  MaxSteps = 1000
CHECK_DEADLOCK FALSE
