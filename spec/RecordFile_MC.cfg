SPECIFICATION Spec
CONSTANTS
  Lens <- MCLens
  MaxOps <- MCMax
INVARIANT CursorOnRecord
INVARIANT PosInside
INVARIANT NextFalseOnlyAtEnd
PROPERTY PrevUndoesNext
CONSTRAINT EmitConstraint
CHECK_DEADLOCK FALSE
