SPECIFICATION Spec
CONSTANTS
  Lens <- MCLens
  MaxOps <- MCMax
  Dev <- MCDev
INVARIANT CursorOnRecord
INVARIANT PosInside
INVARIANT NextFalseOnlyAtEnd
PROPERTY PrevUndoesNext
PROPERTY PrevAfterFailedNext
CONSTRAINT EmitConstraint
CHECK_DEADLOCK FALSE
INVARIANT EofTruthful
INVARIANT ScanVisitsAll
