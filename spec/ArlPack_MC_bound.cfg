SPECIFICATION Spec
INVARIANT InvWithinOneStep
CHECK_DEADLOCK FALSE
