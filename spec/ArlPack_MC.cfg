SPECIFICATION Spec
INVARIANT InvNoWrap
INVARIANT InvFirstExact
INVARIANT InvOffendersAreCutOff
INVARIANT InvStepIs4
CONSTRAINT EmitConstraint
CHECK_DEADLOCK FALSE
