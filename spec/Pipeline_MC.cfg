SPECIFICATION Spec
INVARIANT InvPermutation
INVARIANT InvIdempotent
INVARIANT InvInterleaving
CONSTRAINT EmitConstraint
CHECK_DEADLOCK FALSE
