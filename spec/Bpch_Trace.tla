------------------------------- MODULE Bpch_Trace -------------------------------
(* Trace validation for C18: a reference-encoded bpch file (plus tracerinfo /  *)
(* diaginfo tables) read without scaling, rewritten, read with scaling, and    *)
(* read by the block-walking reader.                                           *)
EXTENDS BpchLayout, TraceLib, FiniteSets
VARIABLES tid, l
tvars == <<tid, l>>
TInit == tid \in 1..NTraces /\ l = 0
ChkS(tr, ll, what, diag) ==
  IF diag = "" THEN TRUE
  ELSE Say([v |-> "MISMATCH", tid |-> tr.tid, l |-> ll, what |-> what, diag |-> diag]) /\ FALSE

\* expected data of tracer s as presented by the reader: [time][layer][lat][lon]
ExpB(c, s, mult) == [q \in 1..(c.nt * c.tr[s].nl * c.nj * c.ni) |->
  LET i == ((q - 1) % c.ni) + 1
      j == (((q - 1) \div c.ni) % c.nj) + 1
      lay == (((q - 1) \div (c.ni * c.nj)) % c.tr[s].nl) + 1
      t == ((q - 1) \div (c.ni * c.nj * c.tr[s].nl)) + 1
  IN mult * Token(s, t, lay, j, i)]
\* twice the scale factor 2^scale2 of the tracer table (scale2 in -1..1)
Scale2x(k) == CASE k = -1 -> 1 [] k = 0 -> 2 [] k = 1 -> 4

\* twice the multiplier of tracer s in a scaled read: the table scale, or 1 for a
\* tracer without a table line
Mult2(c, s, scaled) == IF scaled /\ c.tr[s].intab THEN Scale2x(c.tr[s].scale2) ELSE 2
\* the block-walking reader scales a tracer without a table line like the bare tracer
BareScale2x(c, s) == LET qs == {q \in 1..Len(c.tr) : c.tr[q].off = 0 /\ c.tr[q].id = c.tr[s].id} IN
                     IF qs = {} THEN 2 ELSE Scale2x(c.tr[CHOOSE q \in qs : TRUE].scale2)
DataOK(c, s, x2, scaled, alt) ==
  \/ x2 = ExpB(c, s, Mult2(c, s, scaled))
  \/ (alt /\ scaled /\ ~c.tr[s].intab /\ x2 = ExpB(c, s, BareScale2x(c, s)))
ExpUnit(c, tr, s) == IF c.tr[s].intab THEN tr.tableunits[s] ELSE tr.headerunits[s]

ReadDiagA(c, tr, got, scaled, alt) ==
  IF got.dims.time # c.nt THEN "number of time blocks"
  ELSE IF got.dims.latitude # c.nj \/ got.dims.longitude # c.ni THEN "horizontal grid"
  ELSE IF \E s \in 1..Len(c.tr) : got.vars[s].found = FALSE THEN "a tracer variable (category_name) is missing"
  ELSE IF \E s \in 1..Len(c.tr) : got.vars[s].shape # <<c.nt, c.tr[s].nl, c.nj, c.ni>> THEN "shape of a tracer variable (per-tracer layer count)"
  ELSE IF \E s \in 1..Len(c.tr) : got.vars[s].tracerid # c.tr[s].id THEN "tracer identifier"
  ELSE IF \E s \in 1..Len(c.tr) : got.vars[s].start # <<c.i0 - 1, c.j0 - 1, c.l0 - 1>> THEN "window origin (STARTI, STARTJ, STARTK) of a tracer variable"
  ELSE IF \E s \in 1..Len(c.tr) : ~got.vars[s].ok THEN "values are not the encoded (scaled) values"
  ELSE IF \E s \in 1..Len(c.tr) : ~DataOK(c, s, got.vars[s].x2, scaled, alt)
       THEN "tracer data of variable " \o ToString(CHOOSE s \in 1..Len(c.tr) : ~DataOK(c, s, got.vars[s].x2, scaled, alt))
  ELSE IF scaled /\ (\E s \in 1..Len(c.tr) : (c.tr[s].intab \/ ~alt) /\ got.vars[s].units # ExpUnit(c, tr, s))
       THEN "unit is not the one of the tracer table (of the data header for a tracer without a table line)"
  ELSE IF got.tau0 # [t \in 1..c.nt |-> Tau0(c, t)] THEN "tau0 (time bounds)"
  ELSE IF got.tau1 # [t \in 1..c.nt |-> Tau1(c, t)] THEN "tau1 (time bounds)"
  \* the time_bounds variable, when the reader defines it: row t = [tau0[t], tau1[t]]
  ELSE IF Len(got.tb) > 0 /\ got.tb # [t \in 1..c.nt |-> <<Tau0(c, t), Tau1(c, t)>>] THEN "time_bounds rows are not [tau0, tau1] of each block"
  ELSE ""

ReadDiag(c, tr, got, scaled) == ReadDiagA(c, tr, got, scaled, FALSE)

\* ReadDiag restricted to the first nsteps blocks (truncation scans)
PrefixDiag(c, got, nsteps) ==
  LET cc == [c EXCEPT !.nt = nsteps] IN
  IF got.dims.time # nsteps THEN "number of time blocks"
  ELSE IF \E s \in 1..Len(c.tr) : got.vars[s].found = FALSE THEN "a tracer variable (category_name) is missing"
  ELSE IF \E s \in 1..Len(c.tr) : got.vars[s].shape # <<nsteps, c.tr[s].nl, c.nj, c.ni>> THEN "shape of a tracer variable"
  ELSE IF \E s \in 1..Len(c.tr) : ~got.vars[s].ok THEN "values are not the encoded values"
  ELSE IF \E s \in 1..Len(c.tr) : got.vars[s].x2 # ExpB(cc, s, 2)
       THEN "tracer data of variable " \o ToString(CHOOSE s \in 1..Len(c.tr) : got.vars[s].x2 # ExpB(cc, s, 2))
  ELSE IF got.tau0 # [t \in 1..nsteps |-> Tau0(c, t)] THEN "tau0 (time bounds)"
  ELSE ""
NFound(got) == Cardinality({s \in 1..Len(got.vars) : got.vars[s].found})

TStep ==
  LET tr == Traces[tid] c == tr.cfg IN
  /\ l = 0 /\ l' = 1 /\ tid' = tid
  /\ Chk(tr, 1, "reference encoder size", tr.nbytes, tr.expbytes)
  /\ CASE tr.kind = "roundtrip" ->
       /\ ChkT(tr, 1, "read without scaling raised: " \o tr.raw.exc, tr.raw.res = "ok")
       /\ ChkS(tr, 1, "read(noscale) does not present the encoded content", ReadDiag(c, tr, tr.raw.got, FALSE))
       /\ ChkT(tr, 1, "rewrite raised: " \o tr.rewrite.exc, tr.rewrite.res = "ok")
       /\ Chk(tr, 1, "write(read(file, noscale)) vs the original bytes (32-bit words)", tr.rewrite.words, tr.refwords)
       /\ ChkT(tr, 1, "read with scaling raised: " \o tr.scaled.exc, tr.scaled.res = "ok")
       /\ ChkS(tr, 1, "read with scaling is not raw x table scale", ReadDiag(c, tr, tr.scaled.got, TRUE))
       /\ ChkT(tr, 1, "second write/read raised: " \o tr.rt.exc, tr.rt.res = "ok")
       /\ ChkS(tr, 1, "read(write(f)) differs from f", ReadDiag(c, tr, tr.rt.got, TRUE))
       \* the same file opened with nogroup = [category of the first tracer]: its
       \* tracers under their plain names, the others through f.groups[category]
       /\ ChkT(tr, 1, "read with nogroup=[category] raised: " \o tr.grp.exc, tr.grp.res = "ok")
       /\ ChkS(tr, 1, "read through the group accessors (nogroup = one category) is not raw x table scale", ReadDiag(c, tr, tr.grp.got, TRUE))
       /\ IF tr.alt.res # "ok" THEN ChkT(tr, 1, "block-walking reader raised: " \o tr.alt.exc, FALSE)
          ELSE ChkS(tr, 1, "block-walking reader presents other data than the memory-mapped one", ReadDiagA(c, tr, tr.alt.got, TRUE, TRUE))
       \* the block-walking object keeps its arrays: written twice, the second
       \* file and the object itself still hold the same data
       /\ (tr.alt.res = "ok" =>
             /\ ChkT(tr, 1, "writing the block-walking object twice raised: " \o tr.rt2.exc, tr.rt2.res = "ok")
             /\ ChkS(tr, 1, "second write of the same object: read(write(f)) differs from f", ReadDiagA(c, tr, tr.rt2.got, TRUE, TRUE))
             /\ ChkT(tr, 1, "source object after two writes raised: " \o tr.src2.exc, tr.src2.res = "ok")
             /\ ChkS(tr, 1, "writing changed the source object's data", ReadDiagA(c, tr, tr.src2.got, TRUE, TRUE)))
     \* C14: every prefix of the reference-encoded file opened by the memory-mapped reader
     [] tr.kind = "cuts" ->
       LET pos == PosSeq(c) IN
       \A p \in 1..Len(tr.obs) : LET o == tr.obs[p] m == BpchOpenZ(pos, Len(c.tr), o.n) IN
         /\ ChkT(tr, p, "reader did not terminate on the prefix of " \o ToString(o.n) \o " bytes", o.k # "Hang")
         \* the transcribed decision procedure binds the model to bpch1: the reader may
         \* be stricter than the model (an error, or fewer blocks, where the model exposes
         \* blocks - the property allows both, reported as a NOTE), never more generous
         /\ LET obs == IF o.k = "Steps" THEN <<o.got.dims.time, NFound(o.got)>> ELSE <<-1, 0>>
                mod == IF m.k = "Steps" THEN <<m.n, m.K>> ELSE <<-1, 0>>
                full == o.n = tr.nbytes
            IN IF obs = mod THEN TRUE
               ELSE IF ~full /\ (obs = <<-1, 0>> \/ (mod[1] >= 0 /\ obs[2] = mod[2] /\ obs[1] >= 0 /\ obs[1] < mod[1]))
               THEN Say([v |-> "NOTE", tid |-> tr.tid, l |-> p, what |-> "bpch1 is stricter than its model on this prefix", n |-> o.n, got |-> obs, model |-> mod])
               ELSE Chk(tr, p, "prefix of " \o ToString(o.n) \o " bytes: bpch1 exposes more than its decision procedure (steps, tracers)", obs, mod)
         \* the public reader (bpch1, else the block-walking reader): property clauses only
         /\ ChkT(tr, p, "public reader did not terminate on the prefix of " \o ToString(o.n) \o " bytes", o.wk # "Hang")
         /\ (o.wk = "Steps" =>
               IF NFound(o.wgot) < Len(c.tr)
               THEN (IF m.k = "Steps" /\ m.K < Len(c.tr) /\ NFound(o.wgot) = m.K
                     THEN TrKnown(tr, "C14_K3_bpch_partial_first_block")
                     ELSE ChkT(tr, p, "public reader, prefix of " \o ToString(o.n) \o " bytes: a file with fewer tracers is presented", FALSE))
               ELSE /\ ChkT(tr, p, "public reader, prefix of " \o ToString(o.n) \o " bytes: more blocks exposed than are complete",
                            o.wgot.dims.time <= CompleteBlocks(c, o.n))
                    /\ ChkS(tr, p, "public reader, prefix of " \o ToString(o.n) \o " bytes: exposed blocks differ from the full file",
                            PrefixDiag(c, o.wgot, o.wgot.dims.time)))
         /\ (o.k = "Steps" =>
               IF NFound(o.got) < Len(c.tr)
               THEN TrKnown(tr, "C14_K3_bpch_partial_first_block")
               ELSE /\ ChkT(tr, p, "prefix of " \o ToString(o.n) \o " bytes: more blocks exposed than are complete",
                            o.got.dims.time <= CompleteBlocks(c, o.n))
                    /\ ChkS(tr, p, "prefix of " \o ToString(o.n) \o " bytes: exposed blocks differ from the full file",
                            PrefixDiag(c, o.got, o.got.dims.time)))
  /\ TrAccept(tr)
TSpec == TInit /\ [][TStep]_tvars
=================================================================================
