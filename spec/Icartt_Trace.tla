------------------------------ MODULE Icartt_Trace ------------------------------
(* Trace validation for C19: a generated 1-D time-series file written with    *)
(* ncf2ffi1001, tokenised, read back (explicitly and by auto-detection),      *)
(* written and read a second time.                                            *)
EXTENDS Icartt, TraceLib
VARIABLES tid, l
tvars == <<tid, l>>
TInit == tid \in 1..NTraces /\ l = 0
ChkS(tr, ll, what, diag) ==
  IF diag = "" THEN TRUE
  ELSE Say([v |-> "MISMATCH", tid |-> tr.tid, l |-> ll, what |-> what, diag |-> diag]) /\ FALSE

\* orig / got : [names, units, missing, mask, vals] (vals as %.6e strings)
SameContent(tr, what, got, orig) ==
  /\ Chk(tr, 1, what \o ": variable names and order", got.names, orig.names)
  /\ Chk(tr, 1, what \o ": units", got.units, orig.units)
  \* the format has a missing code for the dependent variables only
  /\ Chk(tr, 1, what \o ": missing-value codes", Tail(got.missing), Tail(orig.missing))
  /\ Chk(tr, 1, what \o ": mask of missing data", got.mask, orig.mask)
  /\ \A i \in 1..Len(orig.vals) : \A k \in 1..Len(orig.vals[i]) :
       orig.mask[i][k] = 1 \/
         Chk(tr, 1, what \o ": value " \o ToString(k) \o " of " \o orig.names[i], got.vals[i][k], orig.vals[i][k])

TStep ==
  LET tr == Traces[tid] IN
  /\ l = 0 /\ l' = 1 /\ tid' = tid
  /\ ChkT(tr, 1, "write raised: " \o tr.wexc, tr.wres = "ok")
  /\ ChkS(tr, 1, "layout of the written text", LayoutDiag(tr.st, tr.lines, tr.declared))
  /\ Chk(tr, 1, "column names", tr.colnames, tr.orig.names)
  /\ ChkT(tr, 1, "re-read raised: " \o tr.rexc, tr.rres = "ok")
  /\ SameContent(tr, "read(write(f))", tr.read1, tr.orig)
  /\ Chk(tr, 1, "reader chosen by auto-detection", tr.autocls, "ffi1001")
  /\ SameContent(tr, "auto-detected read", tr.readauto, tr.orig)
  /\ ChkT(tr, 1, "second write/read raised: " \o tr.rexc2, tr.rres2 = "ok")
  /\ SameContent(tr, "second write/read cycle", tr.read2, tr.read1)
  \* the same text with scale factors other than 1 in its header: values read are
  \* raw x factor (the driver divides by the factor, exactly), in the first
  \* read and after a further write/read cycle alike
  /\ (tr.scaled.h =>
        /\ ChkT(tr, 1, "reading / rewriting the text with scale factors raised: " \o tr.scaled.exc, tr.scaled.res = "ok")
        /\ SameContent(tr, "read of the text with scale factors (values / factor)", tr.sread1, tr.orig)
        /\ SameContent(tr, "write/read cycle after a scaled read (values / factor)", tr.sread2, tr.orig))
  /\ TrAccept(tr)
TSpec == TInit /\ [][TStep]_tvars
=================================================================================
