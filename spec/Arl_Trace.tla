-------------------------------- MODULE Arl_Trace --------------------------------
(* Trace validation for the ARL packed-bit FILE layout (C20, second sentence): *)
(* the reference-encoded file of configuration c read by arlpackedbit.         *)
EXTENDS ArlLayout, TraceLib
VARIABLES tid, l
tvars == <<tid, l>>
TInit == tid \in 1..NTraces /\ l = 0

\* expected data of variable s as the reader presents it: [time][level][y][x]
\* (a layer variable is presented on the levels that carry it, in level order)
ExpVar(c, name) ==
  LET ls == IF IsSfc(c, name) THEN <<0>> ELSE LevelsOf(c, name) IN
  [t \in 1..c.nt |-> [q \in 1..Len(ls) |-> ExpField(c, name, t, ls[q])]]

\* the level texts the library's index-record writer produces (getvgtxts, and the
\* levels readvardef recovers from writevardef's text)
LevelStep ==
  LET tr == Traces[tid] IN
  /\ l = 0 /\ l' = 1 /\ tid' = tid /\ tr.kind = "lvltxt"
  /\ ChkT(tr, 1, "level text writer raised: " \o tr.exc, tr.res = "ok")
  /\ \A q \in 1..Len(tr.v5) :
       /\ ChkT(tr, q, "generator: level is not printable in 6 characters", LevelPrintable(tr.v5[q]))
       /\ Chk(tr, q, "6-character text of level " \o ToString(tr.v5[q]) \o " (1/100000 units)", tr.txt[q], LevelChars(tr.v5[q]))
       /\ Chk(tr, q, "level read back from the written variable definition", tr.back[q], tr.v5[q])
  /\ TrAccept(tr)
TStep ==
  LET tr == Traces[tid] c == tr.cfg IN
  /\ l = 0 /\ l' = 1 /\ tid' = tid /\ tr.kind = "file"
  /\ Chk(tr, 1, "reference encoder: file size", tr.nbytes, c.nt * RecordsPerTime(c) * RecLen(c))
  /\ ChkT(tr, 1, "reader raised on a file laid out as the format prescribes: " \o tr.exc, tr.res = "ok")
  /\ Chk(tr, 1, "dimensions (time, z, y, x)", tr.dims, [time |-> c.nt, z |-> Len(c.levels) - 1, y |-> c.ny, x |-> c.nx])
  /\ Chk(tr, 1, "variable list (surface variables, then layer variables by first appearance)", tr.names, AllNames(c))
  /\ Chk(tr, 1, "surface level", tr.sfclvl, c.levels[1].v)
  /\ Chk(tr, 1, "level list", tr.levels, [q \in 1..(Len(c.levels) - 1) |-> c.levels[q + 1].v])
  /\ Chk(tr, 1, "reference time", tr.reftime, SubSeq(CivilOfStep(c, 1), 1, 6))
  /\ Chk(tr, 1, "times (hours since the first)", tr.hours, [t \in 1..c.nt |-> HoursSince(c, t)])
  /\ \A s \in 1..NVars(c) :
       /\ ChkT(tr, s, "values of " \o AllNames(c)[s] \o " are missing or not multiples of one unit", tr.vars[s].ok)
       /\ Chk(tr, s, "unpacked field of " \o AllNames(c)[s] \o " (every element equals the running reconstruction of the packing)",
              tr.vars[s].v, ExpVar(c, AllNames(c)[s]))
  /\ TrAccept(tr)
TSpec == TInit /\ [][TStep \/ LevelStep]_tvars
=================================================================================
