------------------------------- MODULE Interp_MC -------------------------------
(* All small source/target grids: the algebraic laws of C17 hold for the      *)
(* specified weights (partition of unity, non-negativity, linear exactness,   *)
(* identity; rows sum to one, thickness, column conservation, constants) and  *)
(* every grid pair is emitted for replay on getinterpweights / sigma2coeff.   *)
EXTENDS Interp, Json, IOUtils

MaxSrc == atoi(IOEnv.PNC_IP_MAXSRC)
Pts == 0..6
TPts == 0..8
AscSeqs(S, lo, hi) == UNION {{s \in [1..n -> S] : \A i \in 1..(n - 1) : s[i] < s[i + 1]} : n \in lo..hi}
RevS(s) == [i \in 1..Len(s) |-> s[Len(s) + 1 - i]]
Srcs == LET a == AscSeqs(Pts, 2, MaxSrc) IN a \cup {RevS(s) : s \in a}
Tgts == LET a == AscSeqs(TPts, 1, 3) IN a \cup {RevS(s) : s \in AscSeqs(TPts, 2, 2)}
\* descending sigma edges K = 6 ... 0 with any inner edges
Edges == {RevS(s) : s \in {t \in AscSeqs(Pts, 2, 5) : t[1] = 0 /\ t[Len(t)] = 6}}
SubEdges == {RevS(s) : s \in AscSeqs(Pts, 2, 4)}

WCases == {[kind |-> "w", xs |-> x, nxs |-> n, ex |-> e] : x \in Srcs, n \in Tgts, e \in BOOLEAN}
CCases == {[kind |-> "c", F |-> f, T |-> t] : f \in Edges, t \in Edges \cup SubEdges}

VARIABLE cs
Init == cs \in WCases \cup CCases
Next == UNCHANGED cs
Spec == Init /\ [][Next]_cs

WLaws == cs.kind = "w" =>
  LET w == Weights(cs.xs, cs.nxs, cs.ex) IN
  /\ PartitionOfUnity(w)
  /\ (~cs.ex => NonNegative(w))
  /\ LinearExact(cs.xs, cs.nxs, w, 3, 2, cs.ex) /\ LinearExact(cs.xs, cs.nxs, w, -1, 0, cs.ex)
  /\ (cs.nxs = cs.xs => Identity(w))
  \* ... and only ratios: the same grids in half units have the same weights
  /\ Weights([i \in 1..Len(cs.xs) |-> 2 * cs.xs[i]], [j \in 1..Len(cs.nxs) |-> 2 * cs.nxs[j]], cs.ex) = w
  \* only differences matter: the same grids far from the origin have the same weights
  /\ Weights([i \in 1..Len(cs.xs) |-> cs.xs[i] + 2450000], [j \in 1..Len(cs.nxs) |-> cs.nxs[j] + 2450000], cs.ex) = w
CLaws == cs.kind = "c" =>
  /\ ThicknessMatches(cs.F, cs.T)
  /\ (SharedEnds(cs.F, cs.T) =>
        /\ RowsSumToOne(cs.F, cs.T)
        /\ ColumnConserved(cs.F, cs.T, [l \in 1..(Len(cs.F) - 1) |-> 10 * l + ((l * l) % 7)])
        /\ ConstantKept(cs.F, cs.T, 5))
\* the same top: the edges themselves; tops 60000 -> 18675 Pa: sigma' = (sigma + 1) / 2,
\* i.e. (F + 8) / 16 for F in eighths; the order of the edges is kept
ResigmaLaws == cs.kind = "c" =>
  /\ ResigmaExact(cs.F, 8, 8, 5000, 5000) /\ Resigma(cs.F, 8, 8, 5000, 5000) = cs.F
  /\ ResigmaExact(cs.F, 8, 16, 60000, 18675)
  /\ Resigma(cs.F, 8, 16, 60000, 18675) = [k \in 1..Len(cs.F) |-> cs.F[k] + 8]
EmitConstraint == IF IOEnv.PNC_EMIT = "1" THEN PrintT(ToJson(cs)) ELSE TRUE
=================================================================================
