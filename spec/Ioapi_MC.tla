-------------------------------- MODULE Ioapi_MC --------------------------------
(* Bounded model of the IOAPI wrappers (C10, C11): the state is a structural   *)
(* IOAPI file f with its metadata block m (the same shapes the projection of   *)
(* a real file has, so Coherent / WindowDiag of Ioapi are used unchanged).     *)
(* Every operation is "structural effect of the core operation, then the       *)
(* metadata rule the wrapper must apply".  With Skip = {} every reachable file *)
(* is coherent and every window keeps referencing; naming a wrapper in Skip    *)
(* (it then forgets its metadata rule) makes TLC exhibit the incoherence.      *)
(* Every program of the bounded depth is emitted for replay on the library.    *)
EXTENDS Ioapi, Json, IOUtils

Depth == atoi(IOEnv.PNC_DEPTH)
DoEmit == IOEnv.PNC_EMIT = "1"
SkipName == IOEnv.PNC_SKIP          \* "" or the operation whose metadata rule is dropped

SVar(name, dims, shape) ==
  [name |-> name, dims |-> dims, shape |-> shape, dt |-> "f", masked |-> FALSE,
   enc |-> "none", vals |-> <<>>, mask |-> <<>>, attrs |-> <<>>]
DimL(f, d) == DimLen(f, d)
StdShape(f) == <<DimL(f, "TSTEP"), DimL(f, "LAY"), DimL(f, "ROW"), DimL(f, "COL")>>

\* flags of the k-th hour after 2011-365 22:00 (crosses a year end)
T0 == <<DaysBeforeYear("std", 2011) + 364, 22 * 3600, 0>>
FlagD(k) == LET t == AddSec(T0, k * 3600) IN YearOf("std", t[1]) * 1000 + DayOfYear("std", t[1])
FlagT(k) == LET t == AddSec(T0, k * 3600) IN SecToHms(t[2])
Civil6(d, hms) == LET c == CivilOf("std", NormInst(JulToDay(d), HmsToSec(hms), 0)) IN <<c[1], c[2], c[3], c[4], c[5], c[6]>>

MkFile(names, nt, nl, nr, nc) ==
  [dims |-> << [n |-> "TSTEP", len |-> nt, u |-> TRUE], [n |-> "LAY", len |-> nl, u |-> FALSE],
               [n |-> "ROW", len |-> nr, u |-> FALSE], [n |-> "COL", len |-> nc, u |-> FALSE],
               [n |-> "DATE-TIME", len |-> 2, u |-> FALSE], [n |-> "VAR", len |-> Len(names), u |-> FALSE] >>,
   vars |-> [i \in 1..Len(names) |-> SVar(names[i], <<"TSTEP", "LAY", "ROW", "COL">>, <<nt, nl, nr, nc>>)]
            \o << SVar("TFLAG", <<"TSTEP", "VAR", "DATE-TIME">>, <<nt, Len(names), 2>>) >>,
   attrs |-> <<>>, coords |-> <<"TFLAG">>, cls |-> "ioapi_base"]
MkMeta(names, dates, times, nl, nr, nc, vg, xo, yo) ==
  [nvars |-> Len(names), varlist |-> names, rawlen |-> 16 * Len(names),
   tflag_dates |-> dates, tflag_times |-> times, tflag_uniform |-> TRUE,
   nlays |-> nl, nrows |-> nr, ncols |-> nc, vglvls |-> vg, vglvls_exact |-> TRUE,
   sdate |-> IF Len(dates) > 0 THEN dates[1] ELSE 0, stime |-> IF Len(times) > 0 THEN times[1] ELSE 0,
   tstep |-> 10000, xorig |-> xo, yorig |-> yo, xcell |-> 12, ycell |-> 4, ok |-> TRUE, times_ok |-> TRUE,
   times |-> [i \in 1..Len(dates) |-> Civil6(dates[i], times[i])]]

F0 == MkFile(<<"O3", "NO2">>, 3, 2, 2, 2)
M0 == MkMeta(<<"O3", "NO2">>, [k \in 1..3 |-> FlagD(k - 1)], [k \in 1..3 |-> FlagT(k - 1)], 2, 2, 2, <<1000, 500, 0>>, -108, -60)

VARIABLES f, m, prog
vars == <<f, m, prog>>
Init == f = F0 /\ m = M0 /\ prog = <<>>

ListedNames(ff, mm) == SelectSeq(mm.varlist, LAMBDA k : HasVar(ff, k) /\ VarRec(ff, k).dims \in StdDims)
\* the metadata rule common to all wrappers ("updatemeta"): counts follow content
Recount(ff, mm) ==
  LET names == ListedNames(ff, mm) IN
  [mm EXCEPT !.varlist = names, !.nvars = Len(names), !.rawlen = 16 * Len(names),
             !.nlays = DimL(ff, "LAY"), !.nrows = DimL(ff, "ROW"), !.ncols = DimL(ff, "COL")]
\* file whose VAR dimension and TFLAG width follow nvars and whose variables have shape sh
Reshape(ff, names, nt, nl, nr, nc) == MkFile(names, nt, nl, nr, nc)

Sub(s, lo, cnt) == SubSeq(s, lo + 1, lo + cnt)

\* ---- operations (arguments in the driver's step format) ----------------------
SelU == { [k |-> "int", v |-> 0], [k |-> "int", v |-> -1],
          [k |-> "slice", h |-> <<TRUE, FALSE, FALSE>>, v |-> <<1, 0, 0>>],
          [k |-> "slice", h |-> <<TRUE, TRUE, FALSE>>, v |-> <<0, 1, 0>>] }
Ops ==
  { [act |-> "copy", src |-> 1, others |-> <<>>, args |-> [x |-> 0]] }
  \cup { [act |-> "subset", src |-> 1, others |-> <<>>, args |-> [keys |-> ks, exclude |-> FALSE]] :
           ks \in {<<"O3">>, <<"NO2">>, <<"NO2", "O3">>} }
  \cup { [act |-> "renamevar", src |-> 1, others |-> <<>>, args |-> [old |-> "O3", new |-> "OZONE"]] }
  \cup { [act |-> "slice", src |-> 1, others |-> <<>>,
          args |-> [sels |-> << [d |-> d, s |-> s] >>, newdim |-> "POINTS"]] :
           d \in {"TSTEP", "LAY", "ROW", "COL"}, s \in SelU }
  \cup { [act |-> "apply", src |-> 1, others |-> <<>>,
          args |-> [funcs |-> << [d |-> d, f |-> r, kind |-> "reducer"] >>]] :
           d \in {"TSTEP", "LAY", "ROW", "COL"}, r \in {"mean", "max"} }
  \cup { [act |-> "stack", src |-> 1, others |-> <<1>>, args |-> [dim |-> d, aslist |-> FALSE]] :
           d \in {"TSTEP", "LAY", "ROW"} }
  \cup { [act |-> "interpsigma", src |-> 1, others |-> <<>>, args |-> [vglvls |-> vg, kind |-> kd]] :
           vg \in {<<1000, 0>>, <<1000, 750, 250, 0>>}, kd \in {"linear", "conserve"} }
  \cup { [act |-> "mask", src |-> 1, others |-> <<>>,
          args |-> [p |-> << [k |-> "greater", v |-> 150] >>, where |-> [h |-> FALSE, shape |-> <<>>, bits |-> <<>>],
                    usedims |-> [h |-> FALSE, v |-> <<>>], coords |-> FALSE]] }

Enabled(op) ==
  CASE op.act = "subset" -> \A i \in 1..Len(op.args.keys) : HasVar(f, op.args.keys[i])
    [] op.act = "renamevar" -> HasVar(f, "O3")
    [] op.act = "slice" -> Dom_slice(f, op.args) /\ IsWindow(f, op.args)
    [] op.act = "apply" -> DimL(f, op.args.funcs[1].d) >= 1
    [] op.act = "stack" -> DimL(f, op.args.dim) <= 3
    [] OTHER -> TRUE

NT == DimL(f, "TSTEP")
NLy == DimL(f, "LAY")
NR == DimL(f, "ROW")
NC == DimL(f, "COL")
Names == ListedNames(f, m)
Skip(op) == op.act = SkipName

\* the result (file, metadata) of an operation as the properties demand
Result(op) ==
  LET a == op.args IN
  CASE op.act \in {"copy", "mask"} -> [f |-> f, m |-> m]
    [] op.act = "subset" ->
         LET ff == Reshape(f, a.keys, NT, NLy, NR, NC) IN
         [f |-> ff, m |-> IF Skip(op) THEN m ELSE Recount(ff, [m EXCEPT !.varlist = a.keys])]
    [] op.act = "renamevar" ->
         LET nn == [i \in 1..Len(Names) |-> IF Names[i] = "O3" THEN "OZONE" ELSE Names[i]]
             ff == Reshape(f, nn, NT, NLy, NR, NC) IN
         [f |-> ff, m |-> IF Skip(op) THEN m ELSE Recount(ff, [m EXCEPT !.varlist = nn])]
    [] op.act = "slice" ->
         LET d == a.sels[1].d
             lo == First(f, a, d)
             cnt == Count(f, a, d)
             ff == Reshape(f, Names, IF d = "TSTEP" THEN cnt ELSE NT, IF d = "LAY" THEN cnt ELSE NLy,
                           IF d = "ROW" THEN cnt ELSE NR, IF d = "COL" THEN cnt ELSE NC)
             m1 == IF Skip(op) THEN m ELSE
                   [m EXCEPT !.xorig = IF d = "COL" THEN @ + lo * m.xcell ELSE @,
                             !.yorig = IF d = "ROW" THEN @ + lo * m.ycell ELSE @,
                             !.vglvls = IF d = "LAY" THEN Sub(@, lo, cnt + 1) ELSE @,
                             !.tflag_dates = IF d = "TSTEP" THEN Sub(@, lo, cnt) ELSE @,
                             !.tflag_times = IF d = "TSTEP" THEN Sub(@, lo, cnt) ELSE @,
                             !.times = IF d = "TSTEP" THEN Sub(@, lo, cnt) ELSE @]
             m2 == IF Skip(op) THEN m1 ELSE [m1 EXCEPT !.sdate = m1.tflag_dates[1], !.stime = m1.tflag_times[1]]
         IN [f |-> ff, m |-> IF Skip(op) THEN m2 ELSE Recount(ff, m2)]
    [] op.act = "apply" ->
         LET d == a.funcs[1].d
             ff == Reshape(f, Names, IF d = "TSTEP" THEN 1 ELSE NT, IF d = "LAY" THEN 1 ELSE NLy,
                           IF d = "ROW" THEN 1 ELSE NR, IF d = "COL" THEN 1 ELSE NC)
             m1 == IF Skip(op) THEN m ELSE
                   [m EXCEPT !.vglvls = IF d = "LAY" THEN <<@[1], @[Len(@)]>> ELSE @,
                             \* the time flags are rebuilt from the start date/time
                             !.tflag_dates = IF d = "TSTEP" THEN <<m.sdate>> ELSE @,
                             !.tflag_times = IF d = "TSTEP" THEN <<m.stime>> ELSE @,
                             !.times = IF d = "TSTEP" THEN <<Civil6(m.sdate, m.stime)>> ELSE @]
         IN [f |-> ff, m |-> IF Skip(op) THEN m1 ELSE Recount(ff, m1)]
    [] op.act = "stack" ->
         LET d == a.dim
             ff == Reshape(f, Names, IF d = "TSTEP" THEN 2 * NT ELSE NT, IF d = "LAY" THEN 2 * NLy ELSE NLy,
                           IF d = "ROW" THEN 2 * NR ELSE NR, NC)
             m1 == IF Skip(op) THEN m ELSE
                   [m EXCEPT !.vglvls = IF d = "LAY" THEN SubSeq(@, 1, Len(@) - 1) \o @ ELSE @,
                             !.tflag_dates = IF d = "TSTEP" THEN @ \o @ ELSE @,
                             !.tflag_times = IF d = "TSTEP" THEN @ \o @ ELSE @,
                             !.times = IF d = "TSTEP" THEN @ \o @ ELSE @]
         IN [f |-> ff, m |-> IF Skip(op) THEN m1 ELSE Recount(ff, m1)]
    [] op.act = "interpsigma" ->
         LET ff == Reshape(f, Names, NT, Len(a.vglvls) - 1, NR, NC)
             m1 == IF Skip(op) THEN m ELSE [m EXCEPT !.vglvls = a.vglvls]
         IN [f |-> ff, m |-> IF Skip(op) THEN m1 ELSE Recount(ff, m1)]

\* every step re-bases the program on object "src = latest": the replay uses the
\* id of the newest object, the model keeps only that object
Step(op) ==
  /\ Enabled(op)
  /\ f' = Result(op).f /\ m' = Result(op).m
  /\ prog' = Append(prog, [op EXCEPT !.src = Len(prog) + 1,
                                    !.others = IF op.act = "stack" THEN <<Len(prog) + 1>> ELSE <<>>])
Next == Len(prog) < Depth /\ \E op \in Ops : Step(op)
Spec == Init /\ [][Next]_vars

\* ---- properties -----------------------------------------------------------
Inv_Coherent == C10Demanded(f, m) => Coherent(f, m)
Inv_WellFormed == WellFormed(f) /\ TstepUnlimited(f)
\* C11 on the design: a window step keeps referencing
WindowKeeps ==
  [][\A op \in Ops : (Step(op) /\ op.act = "slice") => WindowDiag(f, m, op.args, f', m') = ""]_vars
EmitConstraint == IF DoEmit /\ Len(prog) = Depth THEN PrintT(ToJson([template |-> "IM", steps |-> prog])) ELSE TRUE
=================================================================================
