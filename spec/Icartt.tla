--------------------------------- MODULE Icartt ---------------------------------
(* C19: the ICARTT (NASA Ames FFI 1001) text layout as a line automaton.      *)
(* A structure st = [nv, natt, nrec]: number of dependent variables, of       *)
(* header comment attributes, of data records.  Line roles of the file:       *)
(*   1 "head" (NLHEAD, 1001)  2 "pi" 3 "org" 4 "src" 5 "mission" 6 "vol"       *)
(*   7 "dates" 8 "interval" 9 "indep" 10 "nv" 11 "scale" 12 "missing"         *)
(*   13..12+nv "vardesc"   13+nv "nspecial"   (special comment lines)         *)
(*   then "nnormal", the normal comment lines, the column-name line "names"   *)
(*   (line NLHEAD), then nrec "data" lines.                                   *)
EXTENDS Integers, Sequences, FiniteSets, TLC

FixedRoles == <<"head", "pi", "org", "src", "mission", "vol", "dates", "interval", "indep", "nv", "scale", "missing">>

\* the writer automaton: role and number of comma-separated tokens of each line
WriterLines(st) ==
  [i \in 1..12 |-> [role |-> FixedRoles[i],
                    ntok |-> CASE i = 1 -> 2 [] i = 11 -> st.nv [] i = 12 -> st.nv [] OTHER -> 0]]
  \o [i \in 1..st.nv |-> [role |-> "vardesc", ntok |-> 2]]
  \o << [role |-> "nspecial", ntok |-> 1] >>
  \o << [role |-> "nnormal", ntok |-> 1] >>
  \o [i \in 1..st.natt |-> [role |-> "comment", ntok |-> 0]]
  \o << [role |-> "names", ntok |-> st.nv + 1] >>
  \o [i \in 1..st.nrec |-> [role |-> "data", ntok |-> st.nv + 1]]

\* header length the format demands = index of the column-name line
HeaderLen(st) == 12 + st.nv + 1 + 1 + st.natt + 1

\* the reader automaton: role of line li decided from the line index and the
\* counts read so far (nv from the "missing" line, nspecial from its count line)
ReaderRole(li, nlhead, nv, nspecial) ==
  IF li <= 12 THEN FixedRoles[li]
  ELSE IF li <= 12 + nv THEN "vardesc"
  ELSE IF li = 13 + nv THEN "nspecial"
  ELSE IF li <= 13 + nv + nspecial THEN "special"
  ELSE IF li = 14 + nv + nspecial THEN "nnormal"
  ELSE IF li < nlhead THEN "comment"
  ELSE IF li = nlhead THEN "names"
  ELSE "data"

\* ---- invariants of the layout (checked for every small structure)
DeclaredMatchesActual(st) ==
  LET ls == WriterLines(st) IN
  /\ ls[HeaderLen(st)].role = "names"
  /\ Len(ls) = HeaderLen(st) + st.nrec
  /\ Cardinality({i \in 1..Len(ls) : ls[i].role = "vardesc"}) = st.nv
ReaderAgreesWithWriter(st) ==
  LET ls == WriterLines(st) IN
  \A i \in 1..Len(ls) : ReaderRole(i, HeaderLen(st), st.nv, 0) = ls[i].role

\* ---- what a written file must look like, given its tokenised lines
\* lines[i] = [ntok, first] ; declared = [nlhead, nv]
LayoutDiag(st, lines, declared) ==
  LET ls == WriterLines(st) IN
  IF declared.nv # st.nv THEN "declared variable count differs from the number of dependent variables"
  ELSE IF Len(lines) # Len(ls) THEN "number of lines (header + data records)"
  ELSE IF declared.nlhead # HeaderLen(st) THEN "declared header-line count differs from the actual header length"
  ELSE IF \E i \in 1..Len(ls) : ls[i].ntok # 0 /\ lines[i].ntok # ls[i].ntok
       THEN "token count of a " \o ls[CHOOSE i \in 1..Len(ls) : ls[i].ntok # 0 /\ lines[i].ntok # ls[i].ntok].role \o " line"
  ELSE ""
=================================================================================
