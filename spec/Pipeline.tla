-------------------------------- MODULE Pipeline --------------------------------
(* The command line pipeline (pncparse.py: getfiles / subsetfiles / pncprep,     *)
(* reached from Python through pnc(options..., ifiles=[f])).    Options of different    *)
(* kinds are NOT applied in the order they appear on the command line but in a   *)
(* fixed order of kinds; options of one kind keep their relative order:          *)
(*     masks -> slices -> reductions -> convolutions -> expressions              *)
(* An option is [k |-> kind, a |-> arguments in the form of the corresponding    *)
(* PncCore operation].  Result(f, opts) is the file the pipeline must present.   *)
EXTENDS PncCore, FiniteSets

KindOrder == <<"mask", "slice", "reduce", "convolve", "expr">>
OfKind(opts, k) == SelectSeq(opts, LAMBDA o : o.k = k)
RECURSIVE CanonFrom(_, _)
CanonFrom(opts, i) == IF i > Len(KindOrder) THEN <<>> ELSE OfKind(opts, KindOrder[i]) \o CanonFrom(opts, i + 1)
Canon(opts) == CanonFrom(opts, 1)

\* every option is one PncCore operation
OptDom(f, o) ==
  CASE o.k = "mask" -> Dom_mask(f, o.a)
    [] o.k = "slice" -> Dom_slice(f, o.a)
    [] o.k \in {"reduce", "convolve"} -> Dom_apply(f, o.a) /\ Dec_apply(f, o.a)
    [] o.k = "expr" -> Dom_eval(f, o.a) /\ Dec_eval(f, o.a)
\* one concrete file per step: a single-axis result has one admissible value;
\* results with cells the property leaves open are not continued
PlainVarP(v, arr) == [name |-> v.name, dims |-> v.dims, shape |-> arr.shape, dt |-> v.dt, masked |-> v.masked,
                      enc |-> v.enc, vals |-> arr.vals, mask |-> arr.mask, attrs |-> v.attrs]
ConcreteP(e) ==
  [e EXCEPT !.vars = [i \in 1..Len(e.vars) |->
     LET v == e.vars[i] IN
     IF "alts" \in DOMAIN v THEN PlainVarP(v, CHOOSE x \in v.alts : TRUE)
     ELSE PlainVarP(v, ArrOf(v))]]
Open(e) == \E i \in 1..Len(e.vars) : "free" \in DOMAIN e.vars[i] \/ "freecells" \in DOMAIN e.vars[i]
            \/ ("alts" \in DOMAIN e.vars[i] /\ Cardinality(e.vars[i].alts) # 1)
ApplyOpt(f, o) ==
  CASE o.k = "mask" -> Exp_mask(f, o.a)
    [] o.k = "slice" -> Exp_slice(f, o.a)
    [] o.k \in {"reduce", "convolve"} -> Exp_apply(f, o.a)
    \* pncexpr keeps every variable and adds the assigned ones
    [] o.k = "expr" -> [f EXCEPT !.vars = f.vars \o Exp_eval(f, o.a).vars]
RECURSIVE Run(_, _)
Run(f, os) == IF Len(os) = 0 THEN [ok |-> TRUE, f |-> f]
              ELSE IF ~OptDom(f, Head(os)) THEN [ok |-> FALSE, f |-> f]
              ELSE LET e == ApplyOpt(f, Head(os)) IN
                   IF Open(e) THEN [ok |-> FALSE, f |-> f] ELSE Run(ConcreteP(e), Tail(os))
Result(f, opts) == Run(f, Canon(opts))

\* ---- laws of the order (independent of file contents)
\* a command line that differs only in how kinds are interleaved is the same pipeline
SameWithinKinds(p, q) == \A i \in 1..Len(KindOrder) : OfKind(p, KindOrder[i]) = OfKind(q, KindOrder[i])
InterleavingIrrelevant(p, q) == SameWithinKinds(p, q) => Canon(p) = Canon(q)
CanonIsPermutation(p) == Len(Canon(p)) = Len(p) /\ \A i \in 1..Len(p) : \E j \in 1..Len(p) : Canon(p)[j] = p[i]
CanonIdempotent(p) == Canon(Canon(p)) = Canon(p)
=================================================================================
