SPECIFICATION Spec
CONSTANTS
  Objs <- MCObjs
  Ids <- MCIds
  StaleClose <- MCStale
  MaxSteps <- MCMax
INVARIANT OthersStayValid
INVARIANT NoSharedHandle
PROPERTY OnlyOwnerReleases
CONSTRAINT EmitConstraint
CHECK_DEADLOCK FALSE
