#!/usr/bin/env python3
"""Writes /verif/MANIFEST.json from the table below (one source of truth)."""
import json
import os

HERE = os.path.dirname(os.path.dirname(os.path.abspath(__file__)))

TECH = ('explicit TLA+ specification model-checked with TLC; TLC-emitted '
        'behaviours replayed on the library; recorded traces validated by a '
        'TLC trace specification')

# property id -> (design_ref, level text, level note, technique suffix)
CLAIMED = {
    'C18': ('5/C18, 3.8',
            "spec/BpchLayout.tla is the bpch layout grammar (general header; per time block and tracer a 36-byte model header, a 168-byte data-block header with category, tracer id, unit, tau0/tau1, dimensions, nested-grid offsets and skip, and the data record with the tracer's own layer count) plus the header-walk automaton of the memory-mapped reader; BpchLayout_MC checks header sizes, skip = data + 8, tiling and that the walk recovers the tracer list on all configurations (1-3 tracers from two categories with different layer counts in any order, grids up to 3x2, nested offsets, 1-3 time blocks) and emits them. Each is serialised by the typed-field encoder with generated tracerinfo/diaginfo tables (category offsets 0/100, scales 2, 1, 1/2) and taken through bpch1(noscale) -> ncf2bpch (the 32-bit words of the output must equal the original), bpch1 with scaling (raw x table scale, unit from the table), write/read of the scaled file, and bpch2; Bpch_Trace validates every step, including the rows of time_bounds.",
            'Trusted: the typed-field serialiser, the generated fixed-width tables. Table scales are powers of two and data integer tokens (exact). Truncated bpch files are scanned under C14; vertical-grid metadata (hyai/hybi) is not compared.',
            'layout grammar + read/rewrite/scale traces validated'),
    'C14': ('5/C14, 3.7',
            'CamxLayout_MC transcribes the decision procedures of the memory-mapped uamiv, wind, cloud/rain and lateral boundary readers (headers must be mappable; whole blocks; the wind reader walks the first step; the cloud/rain reader guesses 5 or 3 variables from the size) and checks for EVERY cut offset of every configuration (1.4M states thorough; a 1 MB file through closed-form sizes that TLC checks against the grammar) that it never exposes more than the complete steps and reads the full file completely. Every proper prefix of reference-encoded files (all offsets for files up to 1.5 kB, block boundaries +-1 and a sample otherwise) is opened under a timer; Camx_Trace requires raise, or complete steps with data and time flags identical to the full file, never a hang, and the outcome the model predicts.',
            'Trusted: the typed-field serialiser and the length-marker record walker in harness/camx.py (they know field types, not formats), TLC. Scope: nine formats in one layout grammar - gridded uamiv (AVERAGE/EMISSIONS, 1-3 species with names of 1-10 characters, grids up to 3x2x2, 1-3 hourly steps, seven start instants incl. year ends 1999/2011/2069, leap days, the 1970 pivot, both end-of-day spellings), one3d, humidity, vertical diffusivity, temperature, height/pressure (grids up to 3x2x2 / 1x2x3, 1-3 steps, three starts), wind (two- and three-word time records, grids of at least 2 cells incl. slabs of the time record's size, 1-3 and 7 steps), cloud/rain (5 and 3 variables) and lateral boundary (1-3 species, grids of at least 2x2). Land use is not modelled (DESIGN.md I.2); data are integer tokens, arbitrary float payloads only through the byte-identity clause. GEOS-Chem bpch files: spec/BpchLayout.tla BpchOpenZ is the transcribed header walk + whole-block rule of bpch1, model-checked on every cut offset of 144 configurations (BpchNeverFabricates, BpchFullFileReadsAll, BpchPartialBlock) and bound by Bpch_Trace (kind cuts: outcome = model, exposed blocks identical to the full file). Known findings C14_K1 (headerless met formats), C14_K2 (cloud/rain variant guessed from the size) and C14_K3 (bpch prefix ending on a tracer boundary of the first block) are format-inherent and reported as KNOWN-FINDING.',
            'cut-point model checking + prefix scans validated'),
    'C13': ('5/C13, 3.7',
            'Every reference-encoded file that both reader families accept is opened with the memory-mapped and the sequential reader; Camx_Trace requires equal lengths of the dimensions both define, equal float data and equal time flags (where both define them); a reader that does not terminate within the timeout is a machinery-visible failure.',
            'Trusted: the typed-field serialiser and the length-marker record walker in harness/camx.py (they know field types, not formats), TLC. Scope: nine formats in one layout grammar - gridded uamiv (AVERAGE/EMISSIONS, 1-3 species with names of 1-10 characters, grids up to 3x2x2, 1-3 hourly steps, seven start instants incl. year ends 1999/2011/2069, leap days, the 1970 pivot, both end-of-day spellings), one3d, humidity, vertical diffusivity, temperature, height/pressure (grids up to 3x2x2 / 1x2x3, 1-3 steps, three starts), wind (two- and three-word time records, grids of at least 2 cells incl. slabs of the time record's size, 1-3 and 7 steps), cloud/rain (5 and 3 variables) and lateral boundary (1-3 species, grids of at least 2x2). Land use is not modelled (DESIGN.md I.2); data are integer tokens, arbitrary float payloads only through the byte-identity clause. spec/RecordFile.tla is the cursor automaton of FortranFileUtil.RecordFile (next, previous, restart_record, unpack, read, eof as functions of file and cursor): RecordFile_MC checks CursorOnRecord, NextFalseOnlyAtEnd, PrevUndoesNext, PrevAfterFailedNext, ScanVisitsAll and EofTruthful on every call sequence of length 4 (quick) / 5 over all tiled files of up to 3 / 4 records, shows that two deviations are detected, and emits every sequence; each is replayed on a real RecordFile and RecordFile_Trace requires (tell, record_start, record_size, return value) after every call to equal Apply(op, lens, cursor).',
            'both readers on generated files + record-cursor automaton model-checked and replayed, traces validated'),
    'C09': ('5/C09, 3.7',
            'spec/CamxLayout.tla is the independent codec: the published record/field layout as a TLA+ grammar. Direction A: the bytes written by the library are walked into records (length markers only) and every record is matched field by field against Layout(c) (markers agree, exact tiling, header counts, names, time flags as instants, token values). Direction B: Layout(c) is serialised by a typed-field encoder and must be presented as exactly the encoded content by every reader of the format (memory-mapped and sequential) - a symmetric writer/reader error no longer cancels. CamxLayout_MC checks tiling on all configurations.',
            'Trusted: the typed-field serialiser and the length-marker record walker in harness/camx.py (they know field types, not formats), TLC. Scope: nine formats in one layout grammar - gridded uamiv (AVERAGE/EMISSIONS, 1-3 species with names of 1-10 characters, grids up to 3x2x2, 1-3 hourly steps, seven start instants incl. year ends 1999/2011/2069, leap days, the 1970 pivot, both end-of-day spellings), one3d, humidity, vertical diffusivity, temperature, height/pressure (grids up to 3x2x2 / 1x2x3, 1-3 steps, three starts), wind (two- and three-word time records, grids of at least 2 cells incl. slabs of the time record's size, 1-3 and 7 steps), cloud/rain (5 and 3 variables) and lateral boundary (1-3 species, grids of at least 2x2). Land use is not modelled (DESIGN.md I.2); data are integer tokens, arbitrary float payloads only through the byte-identity clause. Known findings C09_K1 (sequential uamiv/temperature readers and day/century roll-over) C09_K2 (sequential met readers and single-step files) and C09_K3 (sequential wind reader and slabs of the time record's size) are reported as KNOWN-FINDING.',
            'layout grammar as codec, both directions validated'),
    'C08': ('5/C08, 3.7',
            'For every configuration emitted by CamxLayout_MC a CAMx-convention file is built from the configuration alone (with and without ETFLAG), written with pncgen(format=uamiv), read back with the memory-mapped reader and written again; Camx_Trace requires the re-read content (dimensions, species order, token data, begin/end time flags as instants, and the grid header of the self-describing formats: origin, cell sizes with XCELL # YCELL, projection parameters, time zone) to equal the configuration and the second output to be byte-identical.',
            'Trusted: the typed-field serialiser and the length-marker record walker in harness/camx.py (they know field types, not formats), TLC. Scope: nine formats in one layout grammar - gridded uamiv (AVERAGE/EMISSIONS, 1-3 species with names of 1-10 characters, grids up to 3x2x2, 1-3 hourly steps, seven start instants incl. year ends 1999/2011/2069, leap days, the 1970 pivot, both end-of-day spellings), one3d, humidity, vertical diffusivity, temperature, height/pressure (grids up to 3x2x2 / 1x2x3, 1-3 steps, three starts), wind (two- and three-word time records, grids of at least 2 cells incl. slabs of the time record's size, 1-3 and 7 steps), cloud/rain (5 and 3 variables) and lateral boundary (1-3 species, grids of at least 2x2). Land use is not modelled (DESIGN.md I.2); data are integer tokens, arbitrary float payloads only through the byte-identity clause.',
            'layout model + write/read/rewrite traces validated'),
    'C07': ('5/C07, 3.6',
            'spec/NcStore.tla models the fill-value mechanism (disk fill precedence, data fill, netCDF4 auto-masking) - NcStore_MC checks that the mask survives for all 27 combinations of missing_value/fill_value/_FillValue under the specified data fill and exhibits the losing combination under the attribute-first deviation - and defines StoreDiff, the field-by-field meaning of "reproduces" (dimension names/order/lengths/unlimited flags, global attributes, variable names/order/dtype/dimension tuples, masks, bit-identical unmasked values, variable attributes modulo _FillValue on masked variables). Generated files (11 dtypes incl. char, unsigned and 64-bit; unmasked/partly/fully masked; every fill-attribute combination, with 0 as a fill value in a third of the masked cases; two unlimited dimensions in NETCDF4; scalar/1-D/2-D/3-D; unlimited none/first/not first; str/int/float/array attributes; float payloads with -0.0 and denormals) are saved in all four flavours with and without compression, closed, reopened with format named and by auto-detection (one process per case) and validated by NcStore_Trace; a save may raise only when a dtype is not representable in the flavour.',
            'Trusted: the exact (hex) projection, netCDF4/HDF5 themselves. Excluded by construction: unmasked values equal to a fill value, unlimited dimensions used by no variable (netCDF stores no length for them), bool attributes (not a netCDF type). HDF5 internals / compression ratios out of reach.',
            'fill-mechanism model checking + save/reopen traces validated'),
    'C19': ('5/C19, 3.8',
            'spec/Icartt.tla states the FFI-1001 line layout as a writer automaton (role and token count of every line), the reader role assignment from line index and counts, and the header arithmetic; Icartt_MC checks declared = actual counts and reader/writer role agreement for every structure (1-4 variables, 0-4 comment attributes, 1-4 records) and emits them; for each structure generated files (names, units, missing codes of 3-7 significant digits incl. the wide -9999999, a fractional and a large positive one, masks, magnitudes 1e-30..1e25, negative, zero; plus larger random structures) are written with ncf2ffi1001, tokenised, read with ffi1001() and with pncopen() auto-detection, written and read a second time; Icartt_Trace checks the layout of the text, the declared header/variable counts, and equality of names, order, units, missing codes, masks and %.6e values, and that the second cycle is a fixpoint; in half of the cases the written text is given scale factors other than 1 (powers of two) and read, rewritten and re-read: values must be raw x factor, once, in both cycles.',
            'Trusted: line tokenisation (split on commas), %.6e rendering as the seven-significant-digit comparison. Comment attribute values are single-line strings (a value containing a newline breaks the declared header count: not exercised, noted in DESIGN.md). LLOD/ULOD flag handling not covered.',
            'structure enumeration + write/read traces validated'),
    'C20': ('5/C20, 3.8',
            'spec/ArlPack.tla transcribes the packing definition in exact integers (exponent from the largest neighbour difference, byte = trunc(diff/step + 127.5) saturating, running reconstruction); ArlPack_MC checks NoWrap, FirstExact and that the one-step bound fails only at cut-off bytes (and, with the bound as invariant, exhibits the witness of known finding C20_K1) on every field of a lattice finer than the quantisation step with differences around 2**9, and emits the fields; pack2d/unpack are run on each field and on random larger fields (other exponents, constants, up to 4x6) scaled by 2**s, s in {0,-20,20,-100,60}; ArlPack_Trace requires bytes, exponent, VAR1, checksum (mod 255) and unpack(pack(x)) to equal the model and evaluates the bound.',
            'Trusted: integer fields times 2**s are exact in float32, so code and model must agree to the byte. Not decided: arbitrary float32 fields (rounding of LOG near powers of two, accumulated error on long rows), exponents below 7. Files (second sentence): spec/ArlLayout.tla is the record grammar (index record with grid and variable definitions incl. checksums, one labelled record per variable and level, bytes from ArlPack); ArlLayout_MC checks record sizes, counts and the packing invariants on 32 (quick) / 96 configurations (1-2 surface and layer variables, 2 or 4 levels, 1-3 times 3 or 12 h apart (up to 24 h span) incl. 1999->2000, grids of 300/323 cells) and emits them; they are serialised by a fixed-width text encoder and read with arlpackedbit; Arl_Trace requires the variable lists, level list, times and every unpacked field (= running reconstruction of the packing) to equal the model. The library writer is not exercised (it raises for every input on this tree, DESIGN.md I.4), grids below the reader window are excluded (ReaderWindowFits).',
            'field enumeration + pack/unpack traces validated'),
    'C17': ('5/C17, 3.9',
            'spec/Interp.tla defines the exact rational weights of piecewise-linear interpolation (clamped when not extrapolating) and the layer-overlap fractions of conservative regridding; Interp_MC checks on every small grid pair (source length 2-3 quick / 2-4 thorough, both directions, targets inside/outside, shared or sub-range sigma edges) non-negativity, partition of unity, linear exactness, identity, rows-sum-to-one, thickness matching, column conservation and constant preservation, and emits the pairs; getinterpweights, sigma2coeff, interpDimension (along the middle axis of a 3-D variable) and interpSigma (linear, conserve) are run on them (plus longer random grids and single-level sources) and Interp_Trace requires rational equality with the model.',
            'Trusted: Fraction.limit_denominator recovery of floats (residual <= 1e-9; float32 results of interpSigma to 2e-6 with sigma edges in 1/8 units so that coordinates are exact). Exactness for arbitrary float fields and non-dyadic sigma values is only up to rounding and is not decided. interpvars (functional form) not covered.',
            'grid-pair enumeration + weights/values validated'),
    'C16': ('5/C16, 3.9',
            'spec/Lookup.tla states, for every configuration (strictly monotone coordinate in either direction, bounds given as none / 1-D edges / n x 2, method nearest|bounds|exact, clean, bounds=ignore|warn|error, left/right None|nan), the set of observations the property allows for a probe value (both neighbours at ties and interior edges, mask/warn/raise rules out of range). Lookup_MC enumerates all configurations over a lattice (coordinate length 2-3 quick, 2-4 thorough), checks satisfiability and sharpness invariants of those sets and emits the configurations; each is replayed on val2idx with one call per probe (centres, edges, edge+-1, far outside; plus random longer non-uniform coordinates) and Lookup_Trace checks every observation (index | masked | raised, warning flag) and that the coordinate is unchanged.',
            'Trusted: TLC, the observation logging (warnings are captured from stderr because the library installs its own showwarning). Coordinates/probes are small integers (exact in float64). Clamping to the end cell with bounds=ignore/warn and left/right=None is accepted as documented behaviour. Datetime front-end time2idx is covered through C12 (date2num round trip) rather than here.',
            'configuration enumeration + lookup observations validated'),
    'C12': ('5/C12, 3.4',
            'spec/Calendar.tla (civil <-> day number for standard/noleap/all_leap, YYYYJJJ, HHMMSS, unit offsets) is model-checked by Calendar_MC over every day 1900-2101 (round trip, successor-day, Julian, year-length laws); spec/TimeDecode_Trace.tla computes the expected instants of every recorded getTimes() on generated files (CF units x 15 reference spellings x 4 units x 8 calendar attributes x offsets up to 200 years incl. quarter units; TFLAG; SDATE/STIME/TSTEP with steps from 1 s to 744 h; tau0; bounds=True, which must not raise where getTimes() returns) and checks date2num(getTimes()), time2idx(getTimes()) and the CF time variable synthesised from IOAPI metadata.',
            'Trusted: the TLA+ calendar (proleptic Gregorian = CF standard after 1582), civil-tuple projection of datetimes. Offsets are multiples of 1/4 unit (exact in float64). 360_day/julian calendars are not claimed by the library. Known finding C12_K1 (365/366-day calendars) is reported as KNOWN-FINDING; its deviation signature excludes the sub-domain where the branch is right.',
            'calendar model checking + decode traces validated'),
    'C11': ('5/C11, 3.3',
            'WindowDiag in spec/Ioapi.tla states the referencing rule (origin + first index x cell, matching sub-range of level edges, same sub-range of decoded times, start flags of the first retained time, unchanged step); spec/Ioapi_Trace.tla evaluates it for every slice step that is a contiguous window (integers incl. negative, unit-stride slices with any start/stop, alone or combined over ROW, COL, LAY, TSTEP) in seeded random programs over I1-I5 (windows crossing midnight, year end, leap day; 1 h, 30 min and 24 h steps).',
            'Trusted: metadata projection; getTimes() of source and window are both logged and compared by TLC (their correctness as instants is C12). Origins/cell sizes are integers and VGLVLS multiples of 0.001 so that float arithmetic is exact. Lat/lon of cell centres (pyproj) out of reach.',
            'bounded wrapper model (WindowKeeps) + window traces validated against the referencing rule'),
    'C10': ('5/C10, 3.3',
            'spec/Ioapi.tla defines Coherent (the conjunction the property lists) on the projected metadata block; spec/Ioapi_Trace.tla requires it after every call of seeded random programs (depth 1-3: copy, slice incl. windows, subset, rename, apply over TSTEP/LAY/ROW/COL, eval, mask, stack, interpSigma linear/conserve) over IOAPI templates I1-I5 (gridded, boundary, 24-hour step, leap-day start with 30-minute step, file read from disk) whenever every input was coherent; also well-formedness and TSTEP unlimited.',
            'Trusted: the metadata projection (harness/ioapi_driver.py meta_of: integer attributes, VAR-LIST split in 16-character fields). Not demanded: results with NVARS=0 or an empty time axis, zipped selections (they replace the standard dimensions), operations outside the property list (renameDimension, insertDimension, removeSingleton). spec/Ioapi_MC.tla is the bounded design model of the wrappers (structural file + metadata block, every operation = core effect + the metadata rule of the wrapper): TLC checks Inv_Coherent, Inv_WellFormed and the action property WindowKeeps over all programs of depth 2 (quick) / 3 (thorough), shows for each wrapper that dropping its rule is detected, and emits every program for replay.',
            'bounded wrapper model (Inv_Coherent, sharpness per wrapper) + IOAPI program traces validated'),
    'C06': ('5/C06, 3.1',
            'Exp_arith (13 operators, masked operands, float division by zero -> masked, integer // and % by zero -> masked as soon as one operand is a masked array and 0 for two plain arrays, non-finite operands (projected as n/0) masked under +, -, *, coordinate pass-through), Exp_eval (expression grammar var/int/binary/where) and Exp_mask (predicate combinations, where with/without dims, coords flag) are evaluated by TLC in exact rationals on every arith/eval/mask step and compared with the logged result.',
            'Trusted: TLC/SANY, the projection (harness/project.py: integers, rationals with denominator <= 100, hex otherwise), the argument conversion in harness/core_driver.py. Values are exact rationals; cells whose exact value cannot be identified from the float (denominator > 100, float32 magnitude > 2000, float32 variance, 32-bit overflow guards Dec_*) are not decided. Plotting, projections (pyproj missing) and xarray export are out of reach.',
            'arith/eval/mask traces validated'),
    'C04': ('5/C04, 3.2',
            'Exp_stack (concatenation in argument order along the stack axis, masks included, other variables from the first file, length = sum) is evaluated by TLC on every stack step of programs that first split by slicing and then stack 2-3 files (same file twice, pieces, masked and unmasked, heterogeneous copies), through the stack method and through the module-level stack_files entry point; the stack calls of the repository tests are validated too.',
            'Trusted: TLC/SANY, the projection (harness/project.py: integers, rationals with denominator <= 100, hex otherwise), the argument conversion in harness/core_driver.py. Values are exact rationals; cells whose exact value cannot be identified from the float (denominator > 100, float32 magnitude > 2000, float32 variance, 32-bit overflow guards Dec_*) are not decided. Plotting, projections (pyproj missing) and xarray export are out of reach.',
            'stack traces validated against ConcatArr'),
    'C03': ('5/C03, 3.1',
            'Exp_apply (exact rational reducers sum/min/max/mean/var with masked cells excluded, callables diff/reverse/sub-sampling/cumsum/convolutions along the axis) is evaluated by TLC for every apply step; for several dimensions the result must equal the evaluation in some order of the axes (for commuting reducers the set is a singleton); a dedicated family reduces every pair/triple of dimensions of every template in one call with one reducer name, directly and after a mask() step; every dimension of every template also goes through the string forms reduce_dim / convolve_dim, and command lines made of -r / -c options through the pipeline model (spec/Pipeline.tla); dimension and coordinate lengths follow the function output length.',
            'Trusted: TLC/SANY, the projection (harness/project.py: integers, rationals with denominator <= 100, hex otherwise), the argument conversion in harness/core_driver.py. Values are exact rationals; cells whose exact value cannot be identified from the float (denominator > 100, float32 magnitude > 2000, float32 variance, 32-bit overflow guards Dec_*) are not decided. Plotting, projections (pyproj missing) and xarray export are out of reach.',
            'apply traces validated against exact reducers'),
    'C02': ('5/C02, 3.1',
            'Exp_slice (orthogonal selection Ortho and zipped selection Zip in PncValues.tla, Python slice rule transcribed from the language definition) is evaluated by TLC on the logged pre-state of every slice step (ints, slices incl. negative/empty/reversed, lists with repeats, 1-3 dimensions, any keyword order, also after other operations) and must equal the logged result: data, masks, dimension lengths and flags, dtype and attributes.',
            'Trusted: TLC/SANY, the projection (harness/project.py: integers, rationals with denominator <= 100, hex otherwise), the argument conversion in harness/core_driver.py. Values are exact rationals; cells whose exact value cannot be identified from the float (denominator > 100, float32 magnitude > 2000, float32 variance, 32-bit overflow guards Dec_*) are not decided. Plotting, projections (pyproj missing) and xarray export are out of reach.',
            'slice traces validated against Ortho/Zip'),
    'C01': ('5/C01, 3.2',
            'Recorded executions of seeded random programs (depth 2-4 over templates T1-T5 and the 4-D T7: differing dimension subsets, masked variables, coordinate variables, length-1 and unlimited dimensions, unlimited not first) through copy/slice/apply/stack/subset/rename (variables, one or several dimensions)/insert/remove/reorder/mask/eval/arithmetic, the programs emitted by the bounded PncCore_MC model, and the 107 calls the repository test suite itself makes on PseudoNetCDFFile objects (recorded by harness/recorder_plugin.py, a pytest plugin that wraps the methods from outside) are validated by spec/PncCore_Trace.tla: every returned file must satisfy WellFormed (PncCore.tla), surviving dimensions keep the unlimited flag, and a call whose arguments satisfy the documented-domain predicate Dom_X must complete.',
            'Trusted: TLC/SANY, the projection (harness/project.py: integers, rationals with denominator <= 100, hex otherwise), the argument conversion in harness/core_driver.py. Values are exact rationals; cells whose exact value cannot be identified from the float (denominator > 100, float32 magnitude > 2000, float32 variance, 32-bit overflow guards Dec_*) are not decided. Plotting, projections (pyproj missing) and xarray export are out of reach.',
            'program traces validated against PncCore'),
    'C05': ('5/C05, 3.6',
            'Part 1 (heap): in recorded programs over templates T1-T6 (T6 holds NaN/inf) with queries (repr, dump, getTimes, val2idx, time2idx, date2num, save), mask(invalid=True) steps and a write into every variable of each new file, also through the string forms slice_dim / reduce_dim / convolve_dim / mask_vals / pncexpr of core/_functions.py (known finding C05_K1: pncexpr wraps the variables of its input), PncCore_Trace.tla requires the projection of every other live object to be unchanged after every call. Part 2 (handles): TLC checks OthersStayValid, NoSharedHandle and OnlyOwnerReleases on spec/NcHandles.tla over every open/close/drop/finalise schedule of 3 objects (6 steps quick, 7 thorough) with id recycling; emitted schedules are replayed on real disk files through netcdf(), ioapi(), pncopen() and save() in one forked process each and the logged ids, finalisations (weak references) and reads are validated by spec/NcHandles_Trace.tla.',
            'Trusted: TLC, weakref observation of finalisation, the read probe. Partial collections are covered in the model only.',
            'schedule enumeration + trace validation'),
    'C15': ('5/C15, 3.5',
            'TLC checks HistoryFree and RegistryStable on spec/Registry.tla '
            'over every open history (depth 3 quick / 4 thorough) of a pool '
            'of 14 files whose acceptance matrix is measured from the real '
            'isMine methods; every emitted history (quick: all of length<=2, '
            '600 sampled of length 3, 100 random of length 5-9) is replayed '
            'on pncopen in a fresh forked process and the recorded trace '
            '(selected class, registry before/after, content digest, content '
            'of the explicitly named format) is validated step by step by '
            'spec/Registry_Trace.tla.',
            'Trusted: TLC/SANY, Json/IOUtils modules, the sha1 content '
            'digest in harness/project.py, isMine acceptance measured in a '
            'fresh process as environment data. Formats whose readers cannot '
            'run under the installed numpy (bpch) are not in the pool.',
            'history enumeration + trace validation'),
}

# third session: what was added to each check (appended to the level text)
ADDENDA = {
    'C11': ' Windows are also taken through the short method name f.slice(...).',
    'C01': ' Disk-backed receivers: programs whose first template is written to netCDF and opened again (reopen step) and then transformed.',
    'C02': ' The string form slice_dim is driven with its default fuzzydim=True; PncCore.tla FuzzyTargets states which dimensions it addresses (the named one and its numbered variants), template T9 has dimensions lev, lev2, lev2m, lev10.',
    'C03': ' reduce_dim is driven with its default fuzzydim=True (FuzzyTargets, template T9). An in-domain apply call that raises is a violation of this property too. The standard deviation is decided through its square (StdCall / AsVar: the squares of the result must be the variance of the specification). Functions that only select or reorder elements (rev, sub2, first: SelFuns) carry every cell with its mask and value, also inf/nan (template T6, selection family).',
    'C04': ' The multi-file open helpers pncmfopen / open_mfdataset are entry points of the stack step: pieces are written to disk by reopen steps and opened as one file in the order of the pieces and in other orders (also with descending coordinates, and without a dimension name: DefaultStackDim). The same path may occur more than once.',
    'C05': ' Disk-backed receivers: 150 (quick) / 1500 programs call the queries (save, dump, getTimes, ...) and transformations on a template that was written to netCDF and opened again.',
    'C07': ' Non-finite values (inf, nan) in unmasked cells of float variables. Histories: spec/NcSession.tla states that what is stored depends on the file only (HistoryFree over all save histories of 3 files, sharp against a writer that remembers record dimensions); the emitted histories are replayed as several saves in ONE process.',
    'C08': ' Steps of 24 hours for the meteorological formats (c.dth); lateral-boundary and gridded starts whose steps end on day 366 of a leap year and on 1 January; the re-read end time flags must be the flags of the source (a YYJJJ word must name an existing day).',
    'C09': ' A YYJJJ word must name an existing day (99366 is not a spelling of 00001); steps of 24 hours for the meteorological formats.',
    'C10': ' Template I6 is built from GRIDDESC text and carries the CF variables; coherence is demanded of every object of an ioapi_base subclass. Pieces of the time axis are stacked in every order (tstep_stacks); the short method names slice / apply / subset are entry points too.',
    'C12': ' The synthesis stage also adds time_bounds (n + 1 edges must be the instants of the flags plus one step), runs on attribute-only files and with steps of 100 hours or more.',
    'C16': ' Datetime front-ends: time2idx on coordinates with CF units (four units, seven reference instants incl. offsets, probes as UTC / other zone / naive datetimes, list or array) and the older time2t (nearest / bounds / bounds_close; AllowedT2t); the value looked up is derived by TLC from the civil fields of the datetime passed (TimeVal over Calendar.tla).',
    'C17': ' The grid pairs are also replayed far from the origin (offsets 1e5, 2.45e6, 1.6e9: coordinates large against their spacing); Interp_MC checks translation invariance of the weights. interpSigma is also called with a vgtop different from the file\'s VGTOP (Interp.tla Resigma: the file\'s edges relative to the new top).',
    'C18': ' Tracers whose category offset + id has no line in the tracer table (intab = FALSE: named after the bare tracer, scale 1, unit of the data header) next to the bare tracer in an offset-0 category. Level-range output (window origin l0 > 1 with i0 = j0 = 1); the STARTI/STARTJ/STARTK attributes of every tracer variable must be the window origin.',
    'C19': ' The independent variable is stored as double, int32, int64 or float32, dependent variables as double or float32. Valid values that differ from the variable\'s own missing code in the 6th or 7th significant digit.',
    'C20': ' Grids with 1000 or more cells in one direction (GridId: letters in the label, remainders in the index record).',
}
ADD14 = (' The public bpch reader (geoschemfiles.bpch: bpch1, else the block-walking reader) is opened on every cut too and must satisfy the property clauses (no fewer tracers, no more blocks than are complete, exposed blocks identical). The reader-model clauses are one-sided: a reader may be stricter than its transcribed decision procedure on a proper prefix (NOTE), never more generous.')
ADDENDA['C14'] = ADDENDA.get('C14', '') + ADD14
# rounds 10 and 11 and the late growth of the third session
ADD2 = {
    'C01': ' IOAPI constructors (arrays with and without explicit time flags, GRIDDESC text, a file built by hand) and programs over them: well-formed and TSTEP unlimited, also for the initial objects. eval with operands of different dimensions (broadcast_evals): the call raises or the result is well-formed. Interpolation steps (PncInterp.tla) are part of the programs.',
    'C02': ' Boolean index arrays are a selector kind (SelIdx "bool"). On IOAPI files the time flags are data: a TSTEP selection picks exactly the selected records of TFLAG (TflagSelDiag). Variables made by eval whose type differs from their sources (bool, int64, float64; derived_types) must come out of slice_dim identical.',
    'C03': ' Variables that use one dimension twice (T11) are in the domain; the median reducer is specified (RMedian).',
    'C04': ' Fill values 0 and nan in the pieces (fill_stacks).',
    'C05': ' IOAPI receivers (run_ioapi_isolation): a wrapper call leaves every existing object - structure, attributes and the metadata block incl. the shared VGLVLS array - as it was (interpSigma with a new model top included).',
    'C06': ' Every operator between plain and masked files in both orders (mixed_arith); integer codes of large magnitude (T10); eval results of another type, then mask with values the type cannot hold (derived_types).',
    'C07': ' The save-history model is also checked by Apalache as an inductive invariant (NcSession_Apa.tla, thorough tier). Empty-string attributes; attributes named like netCDF4.Variable members.',
    'C08': ' Between reading and rewriting, another file of the same format on another grid is opened (no state may leak between open files).',
    'C10': ' copy(data=False); templates I8 (explicit TFLAG) and I9 (no TFLAG yet); interpSigma with a new top.',
    'C11': ' Time windows with a non-zero first index on every template, also of a file whose TFLAG is not materialised (CoherentSansTflag).',
    'C14': ' After a refused read of an opened prefix the variables are read a second time (nothing may be handed out then either). The cloud/rain model includes the reader\'s record-marker comparison (CloudOpenM; invariants CloudTrueReadingPasses, CloudAliasShape), so the known finding C14_K2 covers only prefixes whose size AND markers fit the other variant.',
    'C16': ' An explicit finite right sentinel (RightOut); array queries.',
    'C19': ' Missing code 0.',
    'C20': ' Non-zero forecast hours; the level text rule of the index record (LevelChars) bound to getvgtxts / writevardef / readvardef.',
}
ADD3 = {
    'C02': ' numpy-integer selectors.',
    'C03': ' Callables that return a scalar (np.max, np.sum: Fun1d npmax / npsum), alone and on two dimensions of one variable.',
    'C04': ' In-memory and disk-backed pieces in one stack call (mixed_backing_stacks).',
    'C05': ' interpDimension with the coordinate VARIABLE of another file as its argument, then writes into the result.',
    'C06': ' Operators between files that hold the same variables in different storage types (T12 / T13). eval with operands on trailing dimensions (broadcasting) has specified values.',
    'C07': ' A fully masked variable as the only variable along the unlimited dimension.',
    'C09': ' Files of one size with different layer / step splits written to one path and read in one process.',
    'C13': ' Files of one size with different layer / step splits written to one path and read in one process.',
    'C10': ' Sources whose TFLAG lags behind a variable added through the wrapper\'s createVariable (CoherentLag).',
    'C11': ' Windows of sources whose TFLAG lags behind an added variable.',
    'C12': ' Two files with their own synthesised CF time variables stacked along TSTEP.',
    'C15': ' The pool holds one file under two hard-linked names with different suffixes.',
    'C16': ' Coordinates stored as int32 / int16 / float32, queried in half units.',
    'C19': ' The independent variable at any position of the creation order.',
    'C20': ' A second ARL file with other levels is opened and read between opening and reading the file under test.',
}
ADD4 = {
    'C01': ' eval of partial views (A[0], A[1:], A.array()): raises or well-formed.',
    'C02': ' Attributes of the variables of IOAPI slices are those of the source.',
    'C03': ' Reducers on a disk-backed file with missing cells (disk_applies).',
    'C04': ' Pieces of length 0 along the stack dimension (first, middle, last, all).',
    'C05': ' eval of partial and bare-masked-array views of a masked variable, then writes into the result.',
    'C06': ' The coordinate keys of the (left) operand are coordinate keys of the result of an operator or mask().',
    'C07': ' Python-integer attributes beyond 32 bits (NETCDF4).',
    'C12': ' CF cell bounds: time_bounds with the units of time and no calendar of its own, getTimes(bounds=True), also for 365/366-day calendars where the decoding is right.',
    'C14': ' Cuts of uamiv and lateral boundary files are also opened in update mode (r+).',
    'C15': ' Registry.tla has the Register action; histories register a reader (a subclass of the gridded CAMx reader) between opens: the selection is the first accepting candidate of the CURRENT registry.',
    'C18': ' The file is also opened with nogroup=[one category] and read through the group accessors.',
}
ADD5 = {
    'C08': ' uamiv is also written from a netCDF copy of the file (saved as NETCDF3, opened as netCDF4.Dataset) with a cell per species holding netCDF\'s default fill value: the bytes are those of the direct write.',
    'C13': ' Every variable of a file is loaded before any is looked at.',
    'C09': ' Every variable of a file is loaded before any is looked at.',
    'C16': ' int16 coordinates with large values (neighbours summing beyond the type) and no bounds variable.',
    'C17': ' The coordinate variable of another file as target levels beyond the source range, reused for a second interpolation.',
    'C05': ' The argument of interpDimension (a variable of another file) is an object the call must leave unchanged.',
    'C19': ' Blank comment attributes.',
}
for _k, _v in ADD5.items():
    ADD4[_k] = ADD4.get(_k, '') + _v
for _k, _v in ADD4.items():
    ADD3[_k] = ADD3.get(_k, '') + _v
for _k, _v in ADD3.items():
    ADD2[_k] = ADD2.get(_k, '') + _v
for _k, _v in ADD2.items():
    ADDENDA[_k] = ADDENDA.get(_k, '') + _v
NOTE_FIX = {
    'C16': ('Datetime front-end time2idx is covered through C12 (date2num round trip) rather than here.', 'time2t is exercised on ascending time axes with explicit n x 2 time_bounds or uniform spacing (getTimes(bounds=True) is approximate otherwise, with a warning).'),
    'C08': ('Land use is not modelled (DESIGN.md I.2); ', 'Land use (old and new style, optional records) is in the grammar too; '),
    'C09': ('Land use is not modelled (DESIGN.md I.2); ', 'Land use (old and new style, optional records) is in the grammar too; '),
    'C13': ('Land use is not modelled (DESIGN.md I.2); ', ''),
    'C14': ('Land use is not modelled (DESIGN.md I.2); ', ''),
}

NOT_YET = {}


def main():
    props = [json.loads(l) for l in open(os.path.join(HERE,
                                                      'properties.jsonl'))]
    checks = []
    na = []
    for p in props:
        pid = p['id']
        if pid in CLAIMED:
            ref, text, note, tech = CLAIMED[pid]
            text = text + ADDENDA.get(pid, '')
            if pid in NOTE_FIX:
                note = note.replace(*NOTE_FIX[pid])
            checks.append({
                'property_id': pid,
                'quick_cmd': './check %s --tier quick' % pid,
                'thorough_cmd': './check %s --tier thorough' % pid,
                'evidence_file': '/verif/evidence/%s.json' % pid,
                'replay_cmd_template': './check %s --replay {path}' % pid,
                'engine': 'tlc',
                'level_claimed': {'category': 'model_checking', 'text': text,
                                  'design_ref': 'DESIGN.md ' + ref},
                'level_note': note,
                'technique': TECH + ' (' + tech + ')'})
        else:
            na.append({'property_id': pid,
                       'reason': NOT_YET.get(
                           pid, 'check not built yet in this round (planned '
                           'in DESIGN.md section 5/%s); nothing is claimed'
                           % pid)})
    man = {
        'version': 1,
        'setup_cmd': './setup.sh',
        'hooks': {
            'guard': 'PNC_VERIF',
            'enable': 'no source hooks: the harness observes through the '
                      'public API with PYTHONPATH=/repo/src; PNC_VERIF=1 is '
                      'exported by ./check for the harness only',
            'baseline_off_cmd': '/verif/tools/baseline.sh',
            'source_commits': [],
            'add_only': True},
        'engines': [{'name': 'tlc', 'path': '/verif/spec',
                     'serves_properties': sorted(CLAIMED),
                     'kind_free_text': 'TLA+ modules + TLC 1.8 (model '
                     'checking, behaviour emission, trace validation); '
                     'Python harness in /verif/harness executes behaviours '
                     'on /repo/src and records traces'}],
        'checks': checks,
        'not_applicable': na,
        'notes': 'See DESIGN.md. Known findings and fixed defects: '
                 '/verif/known_findings.json.'}
    with open(os.path.join(HERE, 'MANIFEST.json'), 'w') as f:
        json.dump(man, f, indent=1)
    print('MANIFEST.json: %d checks, %d not_applicable' % (len(checks),
                                                           len(na)))


if __name__ == '__main__':
    main()
