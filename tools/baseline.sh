#!/bin/bash
# Runs the repository's baseline suite with the verification guard OFF and
# compares the passing set with /root/.vp/BASELINE.json (stable_pass).
unset PNC_VERIF
out=$(mktemp /tmp/pnc_baseline.XXXXXX.xml)
cd /repo && /venv/bin/python -m pytest -ra -q -p no:cacheprovider --timeout=900 \
  --continue-on-collection-errors --junitxml="$out" >/dev/null 2>&1
find /repo/src/PseudoNetCDF/testcase -name '*.check' -delete
/venv/bin/python - "$out" <<'PY'
import sys, json, xml.etree.ElementTree as ET
base = set(json.load(open('/root/.vp/BASELINE.json'))['stable_pass'])
passed = set()
for tc in ET.parse(sys.argv[1]).getroot().iter('testcase'):
    if not any(c.tag in ('failure', 'error', 'skipped') for c in tc):
        passed.add('%s::%s' % (tc.get('classname'), tc.get('name')))
missing = sorted(base - passed)
print('baseline: %d/%d stable tests pass; %d extra passing' % (len(base & passed), len(base), len(passed - base)))
for m in missing: print('  MISSING', m)
sys.exit(1 if missing else 0)
PY
rc=$?
rm -f "$out"
exit $rc
