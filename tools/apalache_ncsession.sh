#!/bin/bash
# Unbounded-length safety of spec/NcSession.tla with Apalache (inductive
# invariant): base case, inductive step, and invariant => property.
# exit 0: all three hold; 1: a check found a counterexample; 2: tool failure.
cd "$(dirname "$0")/../spec" || exit 2
out=$(mktemp -d /tmp/apa_ncs.XXXXXX)
rc=0
run() {
  r=$(timeout 600 apalache-mc check "$@" --out-dir="$out" NcSession_Apa.tla 2>&1)
  if echo "$r" | grep -q "The outcome is: NoError"; then echo "apalache $*: NoError"
  elif echo "$r" | grep -q "The outcome is: Error"; then echo "apalache $*: COUNTEREXAMPLE"; rc=1
  else echo "apalache $*: tool failure"; echo "$r" | tail -5; rc=2; fi
}
run --init=SInit --inv=IndInv --next=SNext --length=0
run --init=IndInit --inv=IndInv --next=SNext --length=1
run --init=IndInit --inv=HistoryFree --next=SNext --length=0
rm -rf "$out"
exit $rc
