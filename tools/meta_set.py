#!/usr/bin/env python3
"""tools/meta_set.py <seed-id-prefix> key=value ... : update seeded/<id>/meta.json"""
import glob, json, sys
d = glob.glob('/verif/seeded/%s*' % sys.argv[1])
assert len(d) == 1, d
p = d[0] + '/meta.json'
m = json.load(open(p))
for kv in sys.argv[2:]:
    k, v = kv.split('=', 1)
    m[k] = {'true': True, 'false': False}.get(v, v)
json.dump(m, open(p, 'w'), indent=1)
print(p)
