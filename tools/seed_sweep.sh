#!/bin/bash
# tools/seed_sweep.sh "<ids>" "<seeds>" : quick checks under several seeds (must all hold)
ids="${1:-C01 C02 C03 C04 C05 C06 C07 C08 C09 C10 C11 C12 C13 C14 C15 C16 C17 C18 C19 C20}"
seeds="${2:-1 2 3}"
cd /verif
for id in $ids; do for sd in $seeds; do
  out=$(VERIF_SEED=$sd timeout 1500 ./check $id --tier quick 2>&1); rc=$?
  echo "$id seed=$sd rc=$rc $(echo "$out" | tail -1 | cut -c1-120)"
  if [ $rc -ne 0 ]; then echo "$out" | grep -E "^  trace|MACH" | sed 's/.*specification: //' | cut -c1-250 | sort | uniq -c | sort -rn | head -5; fi
done; done
