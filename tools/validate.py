#!/usr/bin/env python3
"""Validate MANIFEST.json and every evidence file against the given schemas (python3-vt has jsonschema)."""
import json, glob, sys, jsonschema
ok = True
def v(path, schema):
    global ok
    try:
        jsonschema.validate(json.load(open(path)), json.load(open(schema)))
    except Exception as ex:
        ok = False
        print('INVALID', path, str(ex)[:300])
v('/verif/MANIFEST.json', '/root/.vp/MANIFEST.schema.json')
for p in sorted(glob.glob('/verif/evidence/*.json')):
    v(p, '/root/.vp/EVIDENCE.schema.json')
print('schemas ok' if ok else 'schema errors')
sys.exit(0 if ok else 1)
