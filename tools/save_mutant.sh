save () 
{ 
    id=$1;
    wt=$2;
    prop=$3;
    needs="$4";
    caught="$5";
    mkdir -p seeded/$id;
    cp $wt/patch.diff seeded/$id/patch.diff;
    cp $wt/demo.py seeded/$id/demo.py;
    cp $wt/notes.txt seeded/$id/notes.txt;
    python3 - "$id" "$prop" "$needs" "$caught" <<'EOF'
import json,sys
id,prop,needs,caught=sys.argv[1:5]
json.dump({"id":id,"property":prop,"breaks":prop,"needs_to_manifest":needs,
 "source":"independent sub-agent given only the property text and a scratch worktree",
 "confirmed":"demo.py FAILs with patch and PASSes without (re-run by me in the worktree); baseline 145 tests pass with patch (agent-reported per-test comparison)",
 "ran":"tools/try_mutant.sh seeded/%s/patch.diff %s"%(id,prop),"detected_by":caught},open('seeded/%s/meta.json'%id,'w'),indent=1)
EOF

}
