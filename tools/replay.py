#!/venv/bin/python
"""./check <ID> --replay <path>: validate the recorded case of a VIOLATION line
again.  The trace stored in the replay file is checked against its trace
specification with the clauses that were enforced (exit 1 if it is still
rejected, 0 if accepted); programs of the core checks (templates + steps) are
first executed again on the current /repo tree, so that the replay shows
whether the violation is still there."""
import json
import os
import sys

HERE = os.path.dirname(os.path.dirname(os.path.abspath(__file__)))
sys.path.insert(0, os.path.join(HERE, 'harness'))


def main():
    prop, path = sys.argv[1], sys.argv[2]
    import common
    d = json.load(open(path))
    case = d.get('case', {})
    print('replay of %s: %s' % (path, d.get('what', '')[:300]))
    if case.get('kind') == 'model':
        print('a TLC model-checking run violated %s; re-run it with:\n  %s'
              % (case.get('violated'), case.get('cmd')))
        return 1
    trace, verdict = case.get('trace'), case.get('verdict', {})
    spec = verdict.get('_spec')
    if not trace or not spec:
        print('this replay file carries no trace to validate')
        return 2
    env = verdict.get('_env', {})
    if spec == 'PncCore_Trace' and trace.get('templates'):
        import core_driver as cd
        prog = {'templates': trace['templates'],
                'steps': [{k: s[k] for k in ('act', 'src', 'others', 'args')
                           if k in s} for s in trace['steps']]}
        res = common.run_cases(cd.execute, [(trace['tid'], prog, None)],
                               timeout=120)
        if res and 'steps' in res[0]:
            trace = res[0]
            print('program executed again on the current tree')
    out = common.Outcome(prop, 'quick')
    v = common.validate_traces(spec, [trace], out, shard=1, env=env,
                               label='replay')
    rec = list(v.values())[0]
    print(json.dumps({k: x for k, x in rec.items()
                      if not k.startswith('_')})[:1500])
    return 0 if rec['v'] in ('ACCEPT', 'KNOWN') else 1


if __name__ == '__main__':
    try:
        sys.exit(main())
    except SystemExit:
        raise
    except BaseException:
        import traceback
        traceback.print_exc()
        sys.exit(2)
