#!/usr/bin/env python3
"""Show a replay file: the program and the failing step."""
import json, sys
d = json.load(open(sys.argv[1]))
print(d['what'][:400])
t = d['case']['trace']; v = d['case']['verdict']
print('templates', t.get('templates'))
for i, s in enumerate(t['steps']):
    print(i+1, s['act'], 'src', s['src'], s['others'], json.dumps(s['args'])[:400], s['res'], s['exc'])
l = v.get('l', 0)
if l:
    s = t['steps'][l-1]
    def find(o, upto):
        # resolve 'same'
        for k in range(upto, -1, -1):
            p = t['steps'][k]['post']
            if o < len(p) and 'same' not in p[o]:
                return p[o]
        return t['init'][o]
    src = find(s['src']-1, l-2) if l >= 2 else t['init'][s['src']-1]
    print('--- source vars')
    for var in src['vars']:
        print(' ', var['name'], var['dims'], var['shape'], var['dt'], 'masked' if var['masked'] else '', var['cells'], var['mask'] if any(var['mask']) else '', [a['k'] for a in var['attrs']])
    if s['new']:
        g = s['post'][s['new']-1]
        print('--- result dims', g['dims'])
        for var in g['vars']:
            print(' ', var['name'], var['dims'], var['shape'], var['dt'], 'masked' if var['masked'] else '', var['cells'], var.get('den',''), var['mask'] if any(var['mask']) else '', [a['k'] for a in var['attrs']])
