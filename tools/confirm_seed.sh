#!/bin/bash
# tools/confirm_seed.sh <worktree>: confirm a seeded change in its scratch worktree:
# demo FAILs with the patch, PASSes without, baseline stable tests pass with the patch.
wt="$1"
cd "$wt" || exit 2
export PYTHONPATH="$wt/src" PYTHONDONTWRITEBYTECODE=1
[ -s patch.diff ] || { echo "$wt: no patch.diff"; exit 2; }
git checkout -q -- src && git apply patch.diff || { echo "$wt: patch does not apply to clean tree"; exit 2; }
timeout 300 /venv/bin/python -W ignore demo.py >/tmp/confirm_$$.with 2>&1; rc_with=$?
git checkout -q -- src
timeout 300 /venv/bin/python -W ignore demo.py >/tmp/confirm_$$.without 2>&1; rc_without=$?
git apply patch.diff
out=$(mktemp /tmp/pnc_bl.XXXXXX.xml)
/venv/bin/python -m pytest -q -p no:cacheprovider --timeout=900 --continue-on-collection-errors --junitxml="$out" >/dev/null 2>&1
find "$wt/src" -name '*.check' -delete
bl=$(/venv/bin/python - "$out" <<'PY'
import sys, json, xml.etree.ElementTree as ET
base = set(json.load(open('/root/.vp/BASELINE.json'))['stable_pass'])
passed = set()
for tc in ET.parse(sys.argv[1]).getroot().iter('testcase'):
    if not any(c.tag in ('failure', 'error', 'skipped') for c in tc):
        passed.add('%s::%s' % (tc.get('classname'), tc.get('name')))
print('%d/%d stable pass, %d total pass' % (len(base & passed), len(base), len(passed)))
PY
)
rm -f "$out"
echo "$wt: demo with patch rc=$rc_with ($(tail -1 /tmp/confirm_$$.with | cut -c1-80)); without rc=$rc_without ($(tail -1 /tmp/confirm_$$.without | cut -c1-60)); baseline with patch: $bl"
rm -f /tmp/confirm_$$.with /tmp/confirm_$$.without
