#!/bin/bash
# Applies every seeded change in turn, runs the quick check(s) that are expected
# to catch it, reverts.  Prints one line per seeded change.
# SWEEP_REPO (default /repo): the tree the patches are applied to; the checks
# run against it (PNC_REPO).  Use a scratch worktree to keep /repo untouched.
HERE="$(cd "$(dirname "$0")/.." && pwd)"
REPO="${SWEEP_REPO:-/repo}"
cd "$HERE"
# SWEEP_MATCH: extended regex on the seed id (e.g. '^S[0-2]'), default all
for d in seeded/S*/; do
  id=$(basename $d)
  if [ -n "$SWEEP_MATCH" ] && ! echo "$id" | grep -Eq "$SWEEP_MATCH"; then continue; fi
  prop=$(python3 -c "import json;print(json.load(open('$d/meta.json'))['property'])")
  checks="$prop"
  case $id in S18_*|S57_*) checks="C09";; S87_*) checks="C05";; esac
  cd "$REPO"
  if [ -n "$(git status --porcelain --untracked-files=no)" ]; then echo "$REPO not clean"; exit 2; fi
  if ! git apply "$HERE/$d/patch.diff" 2>/dev/null; then echo "$id: patch does not apply to the current tree"; cd "$HERE"; continue; fi
  res=""
  for c in $checks; do
    (cd "$HERE" && PNC_REPO="$REPO" timeout 1500 ./check $c --tier quick >/dev/null 2>&1); rc=$?
    res="$res $c:rc=$rc"
  done
  git checkout -- . ; find "$REPO/src" -name '*.check' -delete
  echo "$id ($prop):$res"
  cd "$HERE"
done
