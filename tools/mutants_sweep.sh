#!/bin/bash
# Applies every seeded change to /repo in turn, runs the quick check(s) that are
# expected to catch it, reverts.  Prints one line per seeded change.
cd /verif
for d in seeded/S*/; do
  id=$(basename $d)
  prop=$(python3 -c "import json;print(json.load(open('$d/meta.json'))['property'])")
  checks="$prop"
  case $id in S18*) checks="C09";; esac
  cd /repo
  if [ -n "$(git status --porcelain --untracked-files=no)" ]; then echo "/repo not clean"; exit 2; fi
  if ! git apply "/verif/$d/patch.diff" 2>/dev/null; then echo "$id: patch does not apply to the current tree"; cd /verif; continue; fi
  res=""
  for c in $checks; do
    (cd /verif && timeout 1500 ./check $c --tier quick >/tmp/sweep.out 2>&1); rc=$?
    res="$res $c:rc=$rc"
  done
  git checkout -- . ; find /repo/src -name '*.check' -delete
  echo "$id ($prop):$res"
  cd /verif
done
