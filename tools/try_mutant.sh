#!/bin/bash
# tools/try_mutant.sh <patch.diff> <check id>... : apply to /repo, run quick checks, revert.
patch="$1"; shift
cd /repo || exit 2
if [ -n "$(git status --porcelain --untracked-files=no)" ]; then echo "/repo not clean"; exit 2; fi
git apply "$patch" || { echo "patch does not apply"; exit 2; }
for id in "$@"; do
  out=$(cd /verif && ./check "$id" --tier "${TIER:-quick}" 2>&1); rc=$?
  echo "== $id rc=$rc: $(echo "$out" | grep -c '^VIOLATION') violation lines; $(echo "$out" | tail -1)"
  echo "$out" | grep -E '^  trace|^  TLC' | sed 's/.*"what": //' | sort | uniq -c | sort -rn | head -4
done
git -C /repo checkout -- . 
find /repo/src -name '*.check' -delete
