"""Projection of real PseudoNetCDF objects onto the specification's variables.

Deliberately dumb (DESIGN.md 4.1): no comparison, no normalisation beyond the
encodings below, no knowledge of the right answer.  TLC decides.

Encodings (JSON carries only ints < 2**31, strings, booleans, arrays, objects)
  * cells: list of ints when every unmasked value is integral and small;
    masked cells are logged as 0 with mask bit 1 (their payload is not part of
    the abstract state); otherwise the variable gets "enc": "hex" and cells is
    a list of hex bit patterns.
  * attributes: [name, tagged string]  s:<str>  i:<int>  f:<float hex>
    a:<dtype>:<shape>:<hex bytes>
"""
import hashlib
import numpy as np

BIG = 2 ** 31 - 1


def tag_attr(v):
    if isinstance(v, (bytes, np.bytes_)):
        try:
            v = v.decode('latin1')
        except Exception:
            pass
    if isinstance(v, str):
        return 's:' + v
    if isinstance(v, (bool, np.bool_)):
        return 'b:%d' % int(v)
    if isinstance(v, (int, np.integer)):
        return 'i:%d' % int(v)
    if isinstance(v, (float, np.floating)):
        return 'f:' + np.float64(v).tobytes().hex()
    a = np.asarray(v)
    if a.dtype.kind in 'OU':
        return 's:' + repr(v)
    if a.ndim == 0:
        return tag_attr(a.item())
    return 'a:%s:%s:%s' % (a.dtype.str.lstrip('<>|='),
                           'x'.join(str(s) for s in a.shape),
                           np.ascontiguousarray(a).astype(
                               a.dtype.newbyteorder('<')).tobytes().hex())


def attrs_of(obj):
    out = []
    try:
        names = list(obj.ncattrs())
    except Exception as ex:
        return [{'k': '<ncattrs raised>', 'v': 's:' + repr(ex), 'ok': False}]
    for k in names:
        try:
            v = obj.getncattr(k) if hasattr(obj, 'getncattr') \
                else getattr(obj, k)
            out.append({'k': str(k), 'v': tag_attr(v), 'ok': True})
        except Exception as ex:
            out.append({'k': str(k), 'v': '!missing:' + type(ex).__name__,
                        'ok': False})
    return out


def _cells(arr, exact=False):
    """Return (enc, cells, mask).  exact=True: floats as hex bit patterns."""
    a = np.ma.asarray(arr)
    m = np.ma.getmaskarray(a).ravel()
    d = np.ma.getdata(a).ravel()
    mask = [int(x) for x in m]
    if len(mask) > 0 and all(mask):
        # nothing but masked cells: their payload is not part of the state
        return 'int', [0] * len(mask), mask
    if d.dtype.kind in 'SU':
        return 'str', [x.decode('latin1') if isinstance(x, bytes) else str(x)
                       for x in d.tolist()], mask
    if d.dtype.kind == 'O':
        return 'str', [repr(x) for x in d.tolist()], mask
    if d.dtype.kind == 'b':
        return 'int', [int(x) for x in d], mask
    ok = not (exact and d.dtype.kind == 'f')
    cells = []
    with np.errstate(all='ignore'):
        for x, mm in zip(d.tolist(), mask):
            if mm:
                cells.append(0)
                continue
            if isinstance(x, float):
                if x != x or x in (float('inf'), float('-inf')) \
                        or x != int(x) or abs(x) > BIG:
                    ok = False
                    break
                cells.append(int(x))
            elif isinstance(x, int):
                if abs(x) > BIG:
                    ok = False
                    break
                cells.append(x)
            else:
                ok = False
                break
    if ok:
        return 'int', cells, mask
    rat = None if exact else _rational(d, mask)
    if rat is not None:
        return rat
    d2 = np.ascontiguousarray(d)
    w = d2.dtype.itemsize
    raw = d2.astype(d2.dtype.newbyteorder('>')).tobytes()
    return 'hex', [('' if mm else raw[i * w:(i + 1) * w].hex())
                   for i, mm in enumerate(mask)], mask


def _rational(d, mask):
    """Cells as exact small rationals num/den (den <= 100) when every
    unmasked float is within 2e-6 relative of one; None otherwise."""
    from fractions import Fraction
    if d.dtype.kind != 'f':
        return None
    nums, dens = [], []
    for x, mm in zip(d.tolist(), mask):
        if mm:
            nums.append(0)
            dens.append(1)
            continue
        if x != x or x in (float('inf'), float('-inf')):
            # non-finite cells: n/0 with n = 0 (nan), 1 (+inf), -1 (-inf)
            nums.append(0 if x != x else (1 if x > 0 else -1))
            dens.append(0)
            continue
        if abs(x) > 1e6:
            return None
        fr = Fraction(x).limit_denominator(100)
        if abs(float(fr) - x) > 2e-6 * max(1.0, abs(x)):
            return None
        if abs(fr.numerator) > BIG:
            return None
        nums.append(fr.numerator)
        dens.append(fr.denominator)
    return 'rat', (nums, dens), mask


def project_var(name, v, data=True, exact=False):
    rec = {'name': str(name)}
    try:
        rec['dims'] = [str(d) for d in v.dimensions]
    except Exception as ex:
        rec['dims'] = ['<raised %s>' % type(ex).__name__]
    try:
        arr = v[...]
    except Exception as ex:
        rec['shape'] = []
        rec['err'] = type(ex).__name__
        rec['dt'] = '?'
        rec['masked'] = False
        rec['cells'] = []
        rec['mask'] = []
        rec['enc'] = 'int'
        rec['attrs'] = []
        return rec
    rec['shape'] = [int(s) for s in np.shape(arr)]
    dt = getattr(v, 'dtype', None) or np.asarray(arr).dtype
    try:
        # canonical type code ('q' and 'l' are the same 64-bit integer)
        rec['dt'] = np.dtype(np.dtype(dt).str).char
    except Exception:
        rec['dt'] = str(dt)
    rec['masked'] = bool(isinstance(arr, np.ma.MaskedArray))
    if data:
        rec['enc'], rec['cells'], rec['mask'] = _cells(arr, exact)
        if rec['enc'] == 'rat':
            rec['cells'], rec['den'] = rec['cells']
    rec['attrs'] = attrs_of(v)
    return rec


def project(f, data=True, exact=False):
    dims = []
    for k, d in f.dimensions.items():
        try:
            unl = bool(d.isunlimited())
        except Exception:
            unl = False
        dims.append({'n': str(k), 'len': int(len(d)), 'u': unl})
    vs = []
    for k in list(f.variables.keys()):
        vs.append(project_var(k, f.variables[k], data=data, exact=exact))
    coords = []
    try:
        coords = sorted(str(c) for c in f.getCoords())
    except Exception:
        pass
    return {'cls': type(f).__name__, 'dims': dims, 'vars': vs,
            'attrs': attrs_of(f), 'coords': coords}


def digest(f):
    """Content digest: dimensions (name, length) and variable data/masks."""
    h = hashlib.sha1()
    for k, d in f.dimensions.items():
        h.update(('%s=%d;' % (k, len(d))).encode())
    for k in list(f.variables.keys()):
        v = f.variables[k]
        arr = np.ma.asarray(v[...])
        h.update(('|%s:%s:%s:' % (k, ','.join(v.dimensions),
                                  arr.shape)).encode())
        h.update(np.ascontiguousarray(np.ma.getmaskarray(arr)).tobytes())
        d = np.ma.filled(arr, 0) if arr.dtype.kind in 'fiub' \
            else np.ma.getdata(arr)
        h.update(np.ascontiguousarray(d).tobytes())
    return h.hexdigest()[:16]
