"""Shared machinery: TLC runner, isolated workers, evidence, known findings.

Every check has the same shape (DESIGN.md section 0):
  1. model-check a TLA+ module with TLC (design-level invariants, emission of
     behaviours / input vectors),
  2. execute the emitted behaviours against the real library (PYTHONPATH is
     /repo/src, the current working tree) and record traces,
  3. validate the recorded traces with a TLC trace specification that re-uses
     the module's operators.
Exit codes: 0 held, 1 violation (with a VIOLATION line), 2 machinery failure.
"""
import json
import os
import re
import shutil
import signal
import subprocess
import sys
import tempfile
import time

VERIF = os.path.dirname(os.path.dirname(os.path.abspath(__file__)))
SPEC = os.path.join(VERIF, 'spec')
REPO = os.environ.get('PNC_REPO', '/repo')
EVID = os.path.join(VERIF, 'evidence')
REPLAY = os.path.join(VERIF, 'replay')
TLA_CP = ('/opt/veriftools/tla/tla2tools.jar:'
          '/opt/veriftools/tla/CommunityModules-deps.jar')
NCPU = min(16, os.cpu_count() or 1)


class Machinery(Exception):
    """Failure of the checking machinery itself (exit 2)."""


def seed():
    try:
        return int(os.environ.get('VERIF_SEED', '0'))
    except ValueError:
        return 0


def scratch(prefix='pncverif'):
    base = os.environ.get('TMPDIR', '/tmp')
    return tempfile.mkdtemp(prefix=prefix + '.', dir=base)


# ---------------------------------------------------------------------------
# TLC
# ---------------------------------------------------------------------------
_STATS = re.compile(r'(\d+) states generated, (\d+) distinct states found, '
                    r'(\d+) states left on queue')
_DEPTH = re.compile(r'The depth of the complete state graph search is (\d+)')


class TlcResult(object):
    def __init__(self):
        self.rc = None
        self.out = ''
        self.generated = 0
        self.distinct = 0
        self.depth = 0
        self.wall = 0.0
        self.violated = None      # name of violated invariant / property
        self.error = None         # other TLC error text
        self.prints = []          # decoded JSON values printed by the spec
        self.cmd = ''

    @property
    def ok(self):
        return self.rc == 0 and self.violated is None and self.error is None


def _decode_prints(out):
    vals = []
    for line in out.splitlines():
        line = line.strip()
        if not line.startswith('"'):
            continue
        try:
            s = json.loads(line)
            vals.append(json.loads(s))
        except Exception:
            continue
    return vals


def run_tlc(module, cfg=None, workers=None, timeout=600, env=None,
            extra=(), simulate=None, depth=None, tlc_seed=None,
            coverage=False, dfs=False, cwd=SPEC, heap='4g'):
    """Run TLC on spec/<module>.tla with spec/<cfg>; returns TlcResult."""
    meta = scratch('tlcmeta')
    cfg = cfg or (module + '.cfg')
    if workers is None:
        workers = NCPU
    cmd = ['java', '-XX:+UseParallelGC', '-Xmx' + heap, '-Xss256m']
    if dfs:
        cmd.append('-Dtlc2.tool.queue.IStateQueue=StateDeque')
    cmd += ['-cp', TLA_CP, 'tlc2.TLC', '-config', cfg,
            '-workers', str(workers), '-metadir', meta, '-noGenerateSpecTE']
    if simulate is not None:
        cmd += ['-simulate', simulate]
    if depth is not None:
        cmd += ['-depth', str(depth)]
    if tlc_seed is not None:
        cmd += ['-seed', str(tlc_seed)]
    if coverage:
        cmd += ['-coverage', '1']
    cmd += list(extra) + [module]
    e = dict(os.environ)
    if env:
        e.update({k: str(v) for k, v in env.items()})
    r = TlcResult()
    r.cmd = ' '.join(cmd)
    t0 = time.time()
    try:
        p = subprocess.run(cmd, cwd=cwd, env=e, stdout=subprocess.PIPE,
                           stderr=subprocess.STDOUT, timeout=timeout)
        r.rc = p.returncode
        r.out = p.stdout.decode('utf-8', 'replace')
    except subprocess.TimeoutExpired as ex:
        r.rc = -9
        r.out = (ex.stdout or b'').decode('utf-8', 'replace')
        r.error = 'TLC timeout after %ss' % timeout
    finally:
        shutil.rmtree(meta, ignore_errors=True)
    r.wall = time.time() - t0
    for m in _STATS.finditer(r.out):
        r.generated, r.distinct = int(m.group(1)), int(m.group(2))
    m = _DEPTH.search(r.out)
    if m:
        r.depth = int(m.group(1))
    m = re.search(r'Error: Invariant (\S+) is violated', r.out)
    if m:
        r.violated = m.group(1)
    m = re.search(r'Error: Action property (\S+) is violated', r.out)
    if m:
        r.violated = m.group(1)
    if r.violated is None and 'is violated' in r.out:
        m = re.search(r'Error: (.*is violated.*)', r.out)
        r.violated = m.group(1) if m else 'property'
    if r.violated is None and r.error is None and r.rc != 0:
        m = re.search(r'Error: (.*)', r.out)
        r.error = (m.group(1) if m else 'TLC exit %s' % r.rc)
        # include a bit more context
        idx = r.out.find('Error:')
        r.error = r.out[idx:idx + 1500] if idx >= 0 else r.error
    r.prints = _decode_prints(r.out)
    return r


def unique(items):
    """Order-preserving de-duplication of JSON-able values (a CONSTRAINT that
    prints is evaluated for the initial and for the stuttering state)."""
    seen = set()
    out = []
    for x in items:
        k = json.dumps(x, sort_keys=True)
        if k not in seen:
            seen.add(k)
            out.append(x)
    return out


def need_ok(r, what):
    """Machinery-level requirement: the TLC run completed without error."""
    if r.error is not None:
        raise Machinery('%s: %s\n%s' % (what, r.error, r.out[-3000:]))
    return r


# ---------------------------------------------------------------------------
# isolated execution of library cases
# ---------------------------------------------------------------------------
class CaseTimeout(Exception):
    pass


def _alarm(signum, frame):
    raise CaseTimeout()


def _child_run(func, arg, tmo):
    signal.signal(signal.SIGALRM, _alarm)
    signal.setitimer(signal.ITIMER_REAL, tmo)
    try:
        return func(arg)
    except CaseTimeout:
        return {'_hang': True}
    finally:
        signal.setitimer(signal.ITIMER_REAL, 0)


def _pool_entry(packed):
    func, arg, tmo = packed
    try:
        return _child_run(func, arg, tmo)
    except BaseException as ex:   # harness bug or library escaping
        import traceback
        return {'_crash': repr(ex), '_tb': traceback.format_exc()[-1500:]}


def run_cases(func, args, nproc=None, timeout=20.0, per_child=1,
              chunksize=1):
    """Run func(arg) for every arg in forked workers.

    per_child=1 gives one process per case (needed for netCDF-touching cases);
    larger values recycle workers.  Results are returned in order.  A case
    that exceeds `timeout` yields {'_hang': True}.
    """
    import multiprocessing as mp
    ctx = mp.get_context('fork')
    nproc = nproc or NCPU
    packed = [(func, a, timeout) for a in args]
    if not packed:
        return []
    with ctx.Pool(nproc, maxtasksperchild=per_child) as pool:
        return pool.map(_pool_entry, packed, chunksize=chunksize)


# ---------------------------------------------------------------------------
# known findings
# ---------------------------------------------------------------------------
def load_findings(prop):
    path = os.path.join(VERIF, 'known_findings.json')
    with open(path) as f:
        data = json.load(f)
    return [e for e in data.get('findings', [])
            if e.get('property') == prop and e.get('status') == 'known']


# ---------------------------------------------------------------------------
# outcome of a check
# ---------------------------------------------------------------------------
class Outcome(object):
    def __init__(self, prop, tier):
        self.prop = prop
        self.tier = tier
        self.t0 = time.time()
        self.violations = []      # (what, replay-object)
        self.known = {}           # finding id -> count
        self.known_text = {}
        self.cov = {'states': 0, 'transitions': 0,
                    'traces_validated_against_impl': 0, 'samples': [],
                    'evaluations': 0, 'distinct_nontrivial': 0,
                    'tlc_runs': []}
        self.assumptions = []
        self.exhaustive = None

    # -- TLC bookkeeping ---------------------------------------------------
    def add_tlc(self, name, r, note=''):
        self.cov['states'] += r.distinct
        self.cov['transitions'] += r.generated
        self.cov['tlc_runs'].append({'run': name, 'distinct_states': r.distinct,
                                     'states_generated': r.generated,
                                     'depth': r.depth,
                                     'wall_s': round(r.wall, 2),
                                     'note': note})

    def sample(self, obj, limit=3):
        if len(self.cov['samples']) < limit:
            self.cov['samples'].append(obj)

    # -- verdicts ----------------------------------------------------------
    def violation(self, what, replay_obj):
        self.violations.append((what, replay_obj))

    def known_finding(self, fid, text):
        self.known[fid] = self.known.get(fid, 0) + 1
        self.known_text[fid] = text

    def model_violation(self, r, name):
        """A TLC model-checking run found an invariant violated."""
        self.violation('TLC %s: %s violated in the model' % (name, r.violated),
                       {'kind': 'model', 'run': name, 'cmd': r.cmd,
                        'violated': r.violated, 'tail': r.out[-4000:]})

    def finish(self):
        os.makedirs(EVID, exist_ok=True)
        wall = time.time() - self.t0
        for fid in sorted(self.known):
            print('KNOWN-FINDING: property=%s %s [%s; %d case(s) this run]'
                  % (self.prop, self.known_text[fid], fid, self.known[fid]))
        rc = 0
        if self.violations:
            rc = 1
            d = os.path.join(REPLAY, self.prop)
            os.makedirs(d, exist_ok=True)
            maxv = int(os.environ.get('PNC_MAXVIOL', '20'))
            for i, (what, obj) in enumerate(self.violations[:maxv]):
                path = os.path.join(d, 'v%03d.json' % i)
                with open(path, 'w') as f:
                    json.dump({'property': self.prop, 'what': what,
                               'case': obj}, f, indent=1, default=str)
                print('VIOLATION property=%s replay=%s' % (self.prop, path))
                print("  " + what[:400])
            if len(self.violations) > maxv:
                print('  (%d more violations not written)'
                      % (len(self.violations) - maxv))
        cov = self.cov
        if self.exhaustive is not None:
            cov['exhaustive'] = bool(self.exhaustive)
        cov['known_findings_seen'] = dict(self.known)
        if not cov['samples']:
            cov['samples'] = ['(no case reached the sampling stage)']
        ev = {'property_id': self.prop, 'tier': self.tier, 'seed': seed(),
              'level': 'model_checking', 'coverage': cov,
              'assumptions': self.assumptions,
              'wall_s': round(wall, 2), 'violations': len(self.violations)}
        with open(os.path.join(EVID, self.prop + '.json'), 'w') as f:
            json.dump(ev, f, indent=1, default=str)
        print('%s %s: %s  states=%d traces=%d evals=%d wall=%.1fs'
              % (self.prop, self.tier, 'VIOLATED' if rc else 'held',
                 cov['states'], cov['traces_validated_against_impl'],
                 cov['evaluations'], wall))
        return rc


# ---------------------------------------------------------------------------
# trace validation driver
# ---------------------------------------------------------------------------
def validate_traces(module, traces, out, cfg=None, shard=4000, timeout=900,
                    env=None, label=None, nontrivial=None, heap='4g'):
    """Validate `traces` (list of JSON-able dicts, each with a unique 'tid')
    with spec/<module>.tla.  The trace spec prints one JSON verdict per trace:
      {"v":"ACCEPT","tid":..} | {"v":"KNOWN","tid":..,"dev":..}
      {"v":"MISMATCH","tid":..,"l":..,"what":..,"got":..,"exp":..}
    A trace with no ACCEPT/KNOWN verdict is rejected.
    Returns dict tid -> verdict record.
    """
    import concurrent.futures as cf
    label = label or module
    tmp = scratch('traces')
    verdicts = {}
    seen = {}
    try:
        shards = [traces[i:i + shard] for i in range(0, len(traces), shard)]
        jobs = []
        for si, sh in enumerate(shards):
            path = os.path.join(tmp, 'tr%03d.ndjson' % si)
            with open(path, 'w') as f:
                for t in sh:
                    f.write(json.dumps(t, separators=(',', ':')) + '\n')
            jobs.append(path)

        def one(path):
            e = {'TRACE_FILE': path}
            if env:
                e.update(env)
            return run_tlc(module, cfg=cfg, workers=1, timeout=timeout,
                           env=e, heap=heap)
        with cf.ThreadPoolExecutor(max_workers=max(1, min(NCPU, len(jobs)))) \
                as ex:
            results = list(ex.map(one, jobs))
        for si, r in enumerate(results):
            need_ok(r, 'trace validation %s shard %d' % (label, si))
            if r.violated:
                raise Machinery('trace spec %s reported %s violated:\n%s'
                                % (label, r.violated, r.out[-3000:]))
            out.add_tlc('%s trace-validation shard %d' % (label, si), r)
            for v in r.prints:
                if not isinstance(v, dict) or 'v' not in v:
                    continue
                seen.setdefault(v.get('tid'), []).append(v)
    finally:
        shutil.rmtree(tmp, ignore_errors=True)
    # A trace is accepted only if the trace spec reached its TrAccept (printed
    # last, after every clause held).  KNOWN lines are clauses that matched a
    # deviation signature on the way: with ACCEPT the verdict is KNOWN (all
    # signatures are kept in 'devs'); a MISMATCH without ACCEPT is a rejection
    # even if a KNOWN line was printed earlier for the same trace.
    for tid, vs in seen.items():
        kinds = set(v['v'] for v in vs)
        if 'ACCEPT' in kinds:
            devs = sorted(set(v.get('dev') for v in vs if v['v'] == 'KNOWN'))
            if devs:
                verdicts[tid] = {'v': 'KNOWN', 'tid': tid, 'dev': devs[0],
                                 'devs': devs}
            else:
                verdicts[tid] = {'v': 'ACCEPT', 'tid': tid}
        elif 'MISMATCH' in kinds:
            verdicts[tid] = [v for v in vs if v['v'] == 'MISMATCH'][0]
        else:
            verdicts[tid] = {'v': 'REJECT', 'tid': tid,
                             'what': 'the trace spec did not reach its '
                                     'acceptance (no diagnostic printed)'}
    for t in traces:
        if t['tid'] not in verdicts:
            verdicts[t['tid']] = {'v': 'REJECT', 'tid': t['tid'],
                                  'what': 'no action of the trace spec '
                                          'matched (no diagnostic printed)'}
    # what a replay needs to validate the trace again (tools/replay.py)
    for v in verdicts.values():
        if v['v'] not in ('ACCEPT',):
            v['_spec'] = module
            v['_env'] = dict(env or {})
    return verdicts


def settle(out, traces, verdicts, findings_text, describe=None):
    """Turn verdicts into the outcome: ACCEPT counts, KNOWN must be listed in
    known_findings.json (otherwise it is a violation), everything else is a
    violation."""
    listed = {e['id']: e for e in load_findings(out.prop)}
    bytid = {t['tid']: t for t in traces}
    for tid, v in verdicts.items():
        t = bytid.get(tid)
        if v['v'] == 'ACCEPT':
            out.cov['traces_validated_against_impl'] += 1
        elif v['v'] == 'KNOWN' and all(dv in listed for dv in
                                       v.get('devs', [v.get('dev')])):
            out.cov['traces_validated_against_impl'] += 1
            for dv in v.get('devs', [v.get('dev')]):
                out.known_finding(dv, listed[dv]['what'])
        else:
            what = 'trace %s rejected by the specification: %s' % (
                tid, json.dumps(v, default=str)[:500])
            out.violation(what, {'trace': t, 'verdict': v})


def main_wrap(fn):
    try:
        rc = fn()
    except Machinery as ex:
        print('MACHINERY-FAILURE: %s' % ex)
        sys.exit(2)
    except Exception:
        import traceback
        print('MACHINERY-FAILURE: unexpected exception in the harness')
        traceback.print_exc()
        sys.exit(2)
    except BaseException as ex:
        # library code calling exit() (pncdump's exception handler does) must
        # never end a check silently with status 0
        import traceback
        print('MACHINERY-FAILURE: %s escaped into the harness'
              % type(ex).__name__)
        traceback.print_exc()
        sys.stdout.flush()
        os._exit(2)
    # leave without running finalisers: netCDF4 objects of library files that
    # are still referenced print "Exception ignored in Dataset.__dealloc__"
    # noise after the verdict line otherwise
    sys.stdout.flush()
    sys.stderr.flush()
    os._exit(rc if isinstance(rc, int) else 0)
