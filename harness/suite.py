"""Trace validation of the repository's own tests (DESIGN.md 4.5): the test
suite is run with harness/recorder_plugin.py, which records the public calls
the tests make on PseudoNetCDFFile objects; every recorded call is validated
against spec/PncCore_Trace.tla - result well-formed (C01), receiver and
arguments unchanged (C05), and, where the call is in the specification's
argument language, the result equal to the specified one (C02/C03/C04)."""
import json
import os
import subprocess

from common import Machinery, scratch, validate_traces, settle, VERIF

QUICK = ['src/PseudoNetCDF/test/test_core.py',
         'src/PseudoNetCDF/test/test_functions.py',
         'src/PseudoNetCDF/test/test_cmaqfiles.py']


def record(tier):
    import shutil
    repo = os.environ.get('PNC_REPO', '/repo')
    tmp = scratch('suite')
    try:
        rec = os.path.join(tmp, 'calls.ndjson')
        env = dict(os.environ)
        env['PYTHONPATH'] = '%s/src:%s/harness' % (repo, VERIF)
        env['PNC_RECORD_FILE'] = rec
        env['PNC_VERIF'] = '1'
        env['PYTHONDONTWRITEBYTECODE'] = '1'
        cmd = ['/venv/bin/python', '-m', 'pytest', '-q', '-x' if False else
               '-q', '-p', 'no:cacheprovider', '-p', 'recorder_plugin',
               '--timeout=900', '--continue-on-collection-errors']
        cmd += QUICK if tier == 'quick' else ['src/PseudoNetCDF']
        try:
            p = subprocess.run(cmd, cwd=repo, env=env, stdout=subprocess.PIPE,
                               stderr=subprocess.STDOUT, timeout=3000)
        except subprocess.TimeoutExpired:
            raise Machinery('recording the test suite timed out')
        finally:
            # the suite's writer tests leave artefacts in the source tree
            for root, _, files in os.walk(os.path.join(repo, 'src')):
                for fn in files:
                    if fn.endswith('.check'):
                        os.remove(os.path.join(root, fn))
        if not os.path.exists(rec):
            raise Machinery('the recorder wrote nothing:\n%s'
                            % p.stdout.decode('latin1')[-2000:])
        traces, summary = [], None
        for ln in open(rec):
            d = json.loads(ln)
            if d.get('summary'):
                summary = d
            else:
                traces.append(d)
        if summary is None:
            raise Machinery('the recorder did not finish:\n%s'
                            % p.stdout.decode('latin1')[-2000:])
        return traces, summary
    finally:
        shutil.rmtree(tmp, ignore_errors=True)


def record_async(tier):
    """Start recording in a thread; returns a function that waits for and
    returns (traces, summary) - or raises what record() raised."""
    import threading
    box = {}

    def work():
        try:
            box['v'] = record(tier)
        except BaseException as ex:
            box['e'] = ex
    th = threading.Thread(target=work)
    th.start()

    def wait():
        th.join()
        if 'e' in box:
            raise box['e']
        return box['v']
    return wait


def run_suite(out, tier, enforce, prop, recorded=None):
    """enforce / prop: the clauses of the calling property (as in
    core_driver.run_programs): C01 'wf', C05 'iso', C02-C04/C06 'val' for
    their own steps."""
    traces, summary = recorded if recorded is not None else record(tier)
    if not traces:
        raise Machinery('no call of the test suite was recorded')
    if 'val' in enforce:
        # only the calls whose result this property specifies
        traces = [t for t in traces if t['steps'][0].get('prop') == prop and
                  ':' not in t['steps'][0]['act'] and
                  t['steps'][0]['act'] not in ('query', 'writeall')]
        if not traces:
            out.cov['suite_calls_recorded'] = 0
            return []
    for i, t in enumerate(traces):
        t['tid'] = 900000 + i
    acts = {}
    for t in traces:
        a = t['steps'][0]['act']
        acts[a] = acts.get(a, 0) + 1
    out.cov['suite_calls_recorded'] = len(traces)
    out.cov['suite_calls_skipped_large'] = summary['skipped']
    out.cov['suite_calls_by_action'] = acts
    out.cov['evaluations'] += len(traces)
    env = {'PNC_E_WF': '1' if 'wf' in enforce else '0',
           'PNC_E_ISO': '1' if 'iso' in enforce else '0',
           'PNC_E_VAL': '1' if 'val' in enforce else '0',
           'PNC_E_PROP': prop}
    verdicts = validate_traces('PncCore_Trace', traces, out, shard=7,
                               env=env, label='test-suite calls',
                               timeout=3000)
    settle(out, traces, verdicts, None)
    return traces
