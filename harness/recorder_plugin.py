"""pytest plugin (loaded with -p recorder_plugin): records the public calls the
repository's own tests make on PseudoNetCDFFile objects, in the trace format of
harness/core_driver.py, so that spec/PncCore_Trace.tla can validate them
(DESIGN.md 4.5).  Nothing in /repo is touched: the methods are wrapped from
here, only when PNC_VERIF=1 and PNC_RECORD_FILE are set; only outermost calls
are logged (a depth counter skips nested ones); files with more than MAXCELLS
cells are skipped (counted)."""
import json
import os

import numpy as np

MAXCELLS = 6000
_state = {'depth': 0, 'n': 0, 'skipped': 0, 'fh': None}

REDUCERS = ('sum', 'min', 'max', 'mean', 'var')


def _sel(v):
    if isinstance(v, (int, np.integer)) and not isinstance(v, bool):
        return {'k': 'int', 'v': int(v)}
    if isinstance(v, slice):
        parts = [v.start, v.stop, v.step]
        if all(p is None or isinstance(p, (int, np.integer)) for p in parts):
            return {'k': 'slice', 'h': [p is not None for p in parts],
                    'v': [int(p) if p is not None else 0 for p in parts]}
        return None
    if isinstance(v, (list, tuple, np.ndarray)):
        a = np.asarray(v)
        if a.ndim == 1 and a.dtype.kind in 'iu' and a.size > 0:
            return {'k': 'list', 'v': [int(x) for x in a]}
    return None


def _convert(name, f, args, kwds):
    """(act, spec args, other files) or None when the call has no counterpart
    in the specification's argument language."""
    if name == 'copy':
        if args or any(k not in ('props', 'dimensions', 'variables', 'data')
                       for k in kwds):
            return None
        full = all(kwds.get(k, True) is True for k in
                   ('props', 'dimensions', 'variables', 'data'))
        return ('copy', {}, []) if full else None
    if name == 'sliceDimensions':
        if args:
            return None
        kw = dict(kwds)
        newdim = kw.pop('newdim', 'POINTS')
        kw.pop('verbose', None)
        sels = []
        for d, v in kw.items():
            if d not in f.dimensions:
                return None
            s = _sel(v)
            if s is None:
                return None
            sels.append({'d': str(d), 's': s})
        return ('slice', {'sels': sels, 'newdim': str(newdim)}, [])
    if name == 'applyAlongDimensions':
        if args:
            return None
        fs = []
        for d, fn in kwds.items():
            if d == 'verbose':
                continue
            if not isinstance(fn, str) or fn not in REDUCERS or \
                    d not in f.dimensions:
                return None
            fs.append({'d': str(d), 'kind': 'reducer', 'f': fn})
        return ('apply', {'funcs': fs}, []) if fs else None
    if name == 'subsetVariables':
        if len(args) != 1 or any(k not in ('exclude', 'keepcoords')
                                 for k in kwds):
            return None
        if kwds.get('keepcoords', True) is not True:
            return None
        keys = args[0]
        if isinstance(keys, str) or not all(isinstance(k, str) for k in keys):
            return None
        return ('subset', {'keys': [str(k) for k in keys],
                           'exclude': bool(kwds.get('exclude', False))}, [])
    if name == 'renameVariable':
        if len(args) == 2 and not kwds and all(isinstance(a, str)
                                               for a in args):
            return ('renamevar', {'old': args[0], 'new': args[1]}, [])
        return None
    if name == 'renameDimension':
        if len(args) == 2 and not kwds and all(isinstance(a, str)
                                               for a in args):
            return ('renamedim', {'old': args[0], 'new': args[1]}, [])
        return None
    if name == 'removeSingleton':
        if args or any(k != 'dimkey' for k in kwds):
            return None
        dk = kwds.get('dimkey')
        if dk is None:
            return ('rmsingle', {'h': False, 'd': ''}, [])
        if isinstance(dk, str):
            return ('rmsingle', {'h': True, 'd': dk}, [])
        return None
    if name == 'stack':
        if len(args) != 2 or kwds:
            return None
        other, dim = args
        others = list(other) if isinstance(other, (list, tuple)) else [other]
        return ('stack', {'dim': str(dim),
                          'aslist': isinstance(other, (list, tuple))}, others)
    return None


def _cells(f):
    n = 0
    for v in f.variables.values():
        try:
            n += int(np.prod(v.shape)) if len(v.shape) else 1
        except Exception:
            return 10 ** 9
    return n


def _wrap(cls, name):
    orig = getattr(cls, name)
    from project import project

    def wrapper(self, *args, **kwds):
        if _state['depth'] > 0 or _state['fh'] is None:
            return orig(self, *args, **kwds)
        conv = None
        try:
            # subclasses (IOAPI, readers) add their own metadata rules to the
            # result: their calls are recorded for the structural clauses only
            if type(self) is cls:
                conv = _convert(name, self, args, kwds)
        except Exception:
            conv = None
        objs = [self] + (conv[2] if conv else [])
        try:
            small = all(isinstance(o, cls) and _cells(o) <= MAXCELLS
                        for o in objs)
        except Exception:
            small = False
        if not small:
            _state['skipped'] += 1
            return orig(self, *args, **kwds)
        _state['depth'] += 1
        try:
            pre = [json.dumps(project(o), sort_keys=True) for o in objs]
        except Exception:
            _state['depth'] -= 1
            _state['skipped'] += 1
            return orig(self, *args, **kwds)
        rec = {'act': conv[0] if conv else 'other:' + name, 'src': 1,
               'others': list(range(2, len(objs) + 1)),
               'args': conv[1] if conv else {},
               'prop': {'slice': 'C02', 'apply': 'C03',
                        'stack': 'C04'}.get(conv[0] if conv else '', 'C01'),
               'res': 'ok', 'exc': '', 'new': 0}
        result = None
        try:
            try:
                result = orig(self, *args, **kwds)
            except BaseException as ex:
                rec['res'] = 'raised'
                rec['exc'] = '%s: %s' % (type(ex).__name__, str(ex)[:120])
                raise
            finally:
                try:
                    post = []
                    for o, p in zip(objs, pre):
                        js = json.dumps(project(o), sort_keys=True)
                        post.append({'same': True} if js == p
                                    else json.loads(js))
                    if rec['res'] == 'ok' and isinstance(result, cls) and \
                            result is not self and _cells(result) <= MAXCELLS:
                        post.append(project(result))
                        rec['new'] = len(objs) + 1
                    elif rec['res'] == 'ok':
                        # nothing the specification can look at: a query
                        rec['act'] = 'query'
                    if kwds.get('inplace') is True:
                        # the caller asked for the receiver to be changed:
                        # an explicit write (only its well-formedness is
                        # checked)
                        rec['act'] = 'writeall'
                        rec['new'] = 0
                        post = post[:len(objs)]
                    rec['post'] = post
                    _state['n'] += 1
                    tr = {'tid': _state['n'], 'templates': [],
                          'test': os.environ.get('PYTEST_CURRENT_TEST', ''),
                          'method': name,
                          'init': [json.loads(p) for p in pre],
                          'steps': [rec]}
                    _state['fh'].write(json.dumps(tr) + '\n')
                    _state['fh'].flush()
                except Exception:
                    _state['skipped'] += 1
        finally:
            _state['depth'] -= 1
        return result
    wrapper.__name__ = name
    wrapper.__doc__ = orig.__doc__
    setattr(cls, name, wrapper)


def pytest_configure(config):
    path = os.environ.get('PNC_RECORD_FILE')
    if os.environ.get('PNC_VERIF') != '1' or not path:
        return
    _state['fh'] = open(path, 'a')
    from PseudoNetCDF.core._files import PseudoNetCDFFile
    for name in ('copy', 'sliceDimensions', 'applyAlongDimensions',
                 'subsetVariables', 'renameVariable', 'renameDimension',
                 'removeSingleton', 'stack', 'insertDimension',
                 'reorderDimensions', 'mask', 'eval', 'interpDimension'):
        if hasattr(PseudoNetCDFFile, name):
            _wrap(PseudoNetCDFFile, name)


def pytest_unconfigure(config):
    if _state['fh'] is not None:
        _state['fh'].write(json.dumps({'summary': True, 'n': _state['n'],
                                       'skipped': _state['skipped']}) + '\n')
        _state['fh'].close()
        _state['fh'] = None
