"""C18: GEOS-Chem binary punch read/write round trip and scaling.

spec/BpchLayout.tla is the layout grammar (general header, per-tracer data
block headers with skip, per-tracer layer counts, header walk); BpchLayout_MC
checks header sizes, skip arithmetic, tiling and the header-walk automaton on
all configurations and emits them; each is serialised by the typed-field
encoder together with tracerinfo/diaginfo tables and taken through bpch1
(noscale) -> ncf2bpch (bytes must be reproduced), bpch1 scaled (raw x table
scale, unit from the table), write/read of the scaled file, and bpch2;
validated by Bpch_Trace."""
import os
import random
import shutil
import struct
import sys

import numpy as np

from common import (unique, Outcome, Machinery, run_tlc, need_ok, run_cases,
                    scratch, validate_traces, settle, seed, main_wrap)

PROP = 'C18'


def serialise(recs):
    out = []
    for rec in recs:
        payload = b''
        for fld in rec:
            t = fld['t']
            if t == 'i':
                payload += struct.pack('>i', int(fld['v']))
            elif t == 'f':
                payload += struct.pack('>f', float(fld['v']))
            elif t == 'd':
                payload += struct.pack('>d', float(fld['v']))
            elif t == 's':
                payload += ''.join(fld['v']).encode('latin1').ljust(
                    fld['n'])[:fld['n']]
            else:
                raise ValueError(fld)
        out.append(struct.pack('>i', len(payload)) + payload +
                   struct.pack('>i', len(payload)))
    return b''.join(out)


def words(data):
    n = len(data) // 4
    return [int(x) for x in struct.unpack('>%di' % n, data[:4 * n])] + \
        [len(data) % 4]


def tables(cfg, d):
    rows = {}
    offs = {}
    for tr in cfg['tr']:
        name = ''.join(tr['name'])
        offs[''.join(tr['cat'])] = tr['off']
        if not tr.get('intab', True):
            continue        # no line for offset + id in the tracer table
        rows[tr['id'] + tr['off']] = (name, 2.0 ** tr['scale2'],
                                      name + '_u')
    with open(os.path.join(d, 'tracerinfo.dat'), 'w') as f:
        f.write('# tracerinfo generated for verification\n')
        for tid in sorted(rows):
            name, scale, unit = rows[tid]
            f.write('%-8s %-30s%10.3E%3d%9d%10.3E %s\n' % (
                name, name + ' tracer', 1.4e-2, 1, tid, scale, unit))
    with open(os.path.join(d, 'diaginfo.dat'), 'w') as f:
        f.write('# diaginfo generated for verification\n')
        for cat in sorted(offs):
            f.write('%8d %-40s%s\n' % (offs[cat], cat, 'category ' + cat))
    return [''.join(tr['name']) + '_u' for tr in cfg['tr']]


def present(f, cfg, listed=None):
    """listed: the categories given as nogroup=[...] - their tracers are
    stored under the plain name, the others are read through the group
    accessor f.groups[category].variables[name]"""
    out = {'dims': {}, 'vars': [], 'tau0': [], 'tau1': []}
    for k in ('time', 'latitude', 'longitude'):
        out['dims'][k] = int(len(f.dimensions[k])) if k in f.dimensions \
            else -1
    for tr in cfg['tr']:
        cat, nm = ''.join(tr['cat']), ''.join(tr['name'])
        key = '%s_%s' % (cat, nm)
        where = f.variables
        if listed is not None:
            if cat in listed:
                key = nm
            else:
                try:
                    where = f.groups[cat].variables
                    key = nm
                except Exception:
                    where = {}
        try:
            found = key in where or where[key] is not None
        except Exception:
            found = False
        rec = {'key': key, 'found': bool(found), 'shape': [],
               'tracerid': -1, 'ok': False, 'x2': [], 'units': '',
               'start': [-1, -1, -1]}
        if rec['found']:
            v = where[key]
            a = np.asarray(v[...], dtype='d')
            rec['shape'] = [int(s) for s in a.shape]
            rec['tracerid'] = int(getattr(v, 'tracerid', -1))
            # window origin (0-based; the attributes are absent for 0, 0, 0)
            rec['start'] = [int(getattr(v, k, 0))
                            for k in ('STARTI', 'STARTJ', 'STARTK')]
            u = getattr(v, 'units', '')
            rec['units'] = (u.decode() if isinstance(u, bytes) else
                            str(u)).strip()
            x2 = a.ravel() * 2
            if (x2 == np.round(x2)).all() and (np.abs(x2) < 2e9).all():
                rec['ok'] = True
                rec['x2'] = [int(x) for x in x2]
        out['vars'].append(rec)
    for k in ('tau0', 'tau1'):
        if k in f.variables:
            a = np.asarray(f.variables[k][...], dtype='d').ravel()
            out[k] = [int(x) if float(x).is_integer() else -1 for x in a]
    # time bounds as presented (rows of [begin, end] in hours since 1985)
    out['tb'] = []
    try:
        if 'time_bounds' in f.variables:
            a = np.asarray(f.variables['time_bounds'][...], dtype='d')
            if a.ndim == 2:
                out['tb'] = [[int(x) if float(x).is_integer() else -1
                              for x in row] for row in a]
    except Exception as ex:
        out['tb'] = [[-2, -2]]
    return out


EMPTY = {'dims': {'time': -1, 'latitude': -1, 'longitude': -1}, 'vars': [],
         'tau0': [], 'tau1': [], 'tb': []}


def attempt(fn):
    try:
        return {'res': 'ok', 'exc': '', 'got': fn()}
    except Exception as ex:
        return {'res': 'raised',
                'exc': '%s: %s' % (type(ex).__name__, str(ex)[:80]),
                'got': EMPTY}


def run_case(arg):
    import warnings
    warnings.simplefilter('ignore')
    tid, item = arg
    cfg = item['cfg']
    from PseudoNetCDF.geoschemfiles import bpch1, bpch2
    from PseudoNetCDF.pncgen import pncgen
    tmp = scratch('c18')
    try:
        data = serialise(item['recs'])
        path = os.path.join(tmp, 'ref.bpch')
        with open(path, 'wb') as fo:
            fo.write(data)
        tunits = tables(cfg, tmp)
        tr = {'tid': tid, 'kind': 'roundtrip', 'cfg': cfg, 'nbytes': len(data),
              'expbytes': item['bytes'], 'refwords': words(data),
              'tableunits': tunits,
              'headerunits': [''.join(t['unit']) for t in cfg['tr']]}
        raw = {}

        def rd_raw():
            raw['f'] = bpch1(path, noscale=True)
            return present(raw['f'], cfg)
        tr['raw'] = attempt(rd_raw)
        tr['rewrite'] = {'res': 'ok', 'exc': '', 'words': []}
        try:
            od = os.path.join(tmp, 'o')
            os.makedirs(od)
            o = pncgen(raw['f'], os.path.join(od, 'w.bpch'), format='bpch',
                       verbose=0)
            try:
                o.close()
            except Exception:
                pass
            tr['rewrite']['words'] = words(
                open(os.path.join(od, 'w.bpch'), 'rb').read())
        except Exception as ex:
            tr['rewrite'] = {'res': 'raised', 'exc': repr(ex)[:100],
                             'words': []}
        sc = {}

        def rd_scaled():
            sc['f'] = bpch1(path)
            return present(sc['f'], cfg)
        tr['scaled'] = attempt(rd_scaled)

        def rd_rt():
            od2 = os.path.join(tmp, 'o2')
            os.makedirs(od2)
            for k in ('tracerinfo.dat', 'diaginfo.dat'):
                shutil.copy(os.path.join(tmp, k), os.path.join(od2, k))
            o = pncgen(sc['f'], os.path.join(od2, 'w.bpch'), format='bpch',
                       verbose=0)
            try:
                o.close()
            except Exception:
                pass
            return present(bpch1(os.path.join(od2, 'w.bpch')), cfg)
        tr['rt'] = attempt(rd_rt)
        def rd_grp():
            # the categories of the first tracer without group prefix, the
            # others through the group accessors
            listed = [''.join(cfg['tr'][0]['cat'])]
            return present(bpch1(path, nogroup=listed), cfg, listed)
        tr['grp'] = attempt(rd_grp)
        alt = {}

        def rd_alt():
            alt['f'] = bpch2(path)
            return present(alt['f'], cfg)
        tr['alt'] = attempt(rd_alt)

        def rd_rt2():
            # an object that holds its arrays in memory, written twice: the
            # second file (and the object after the writes) must still carry
            # the same data
            od3 = os.path.join(tmp, 'o3')
            os.makedirs(od3)
            for k in ('tracerinfo.dat', 'diaginfo.dat'):
                shutil.copy(os.path.join(tmp, k), os.path.join(od3, k))
            for name in ('w1.bpch', 'w2.bpch'):
                o = pncgen(alt['f'], os.path.join(od3, name), format='bpch',
                           verbose=0)
                try:
                    o.close()
                except Exception:
                    pass
            tr['src2'] = attempt(lambda: present(alt['f'], cfg))
            return present(bpch1(os.path.join(od3, 'w2.bpch')), cfg)
        tr['src2'] = {'res': 'raised', 'exc': 'not reached', 'got': EMPTY}
        tr['rt2'] = attempt(rd_rt2)
        return tr
    finally:
        shutil.rmtree(tmp, ignore_errors=True)


def run(tier):
    out = Outcome(PROP, tier)
    rnd = random.Random(seed() * 7919 + 18)
    r = need_ok(run_tlc('BpchLayout_MC', workers=1, timeout=1200,
                        env={'PNC_EMIT': '1', 'PNC_BPCH_CUTS': '0'}),
                'BpchLayout_MC')
    out.add_tlc('BpchLayout_MC: header sizes, skip, tiling, header walk on '
                'all configurations', r)
    if r.violated:
        out.model_violation(r, 'BpchLayout_MC')
    items = unique([p for p in r.prints if isinstance(p, dict) and 'recs' in p])
    if not items:
        raise Machinery('BpchLayout_MC emitted nothing')
    if tier == 'quick':
        # a sample of every tracer list (categories, offsets, table lines)
        groups = {}
        for it in items:
            groups.setdefault(str(it['cfg']['tr']), []).append(it)
        items = []
        for k in sorted(groups):
            items += rnd.sample(groups[k], min(len(groups[k]), 12))
    args = [(i + 1, it) for i, it in enumerate(items)]
    res = run_cases(run_case, args, timeout=120, per_child=10, chunksize=1)
    traces = []
    for a, t in zip(args, res):
        if '_crash' in t or '_hang' in t:
            raise Machinery('bpch case failed: %r %r' % (a[1]['cfg'], t))
        traces.append(t)
    out.cov['evaluations'] = len(traces)
    out.cov['distinct_nontrivial'] = len(set(str(t['cfg']) for t in traces))
    out.cov['rule'] = ('a case is one configuration (tracer list with '
                       'per-tracer layer counts and categories, grid, nested '
                       'offsets, 1-3 time blocks); distinct = different '
                       'configuration')
    for t in traces[:2]:
        out.sample({'cfg': t['cfg'], 'raw': t['raw']['res'],
                    'alt': t['alt']['res']})
    verdicts = validate_traces('Bpch_Trace', traces, out, shard=40)
    settle(out, traces, verdicts, None)
    out.assumptions = [
        'table scales are powers of two and data integer tokens, so scaled '
        'values are exact', 'the byte comparison of the rewrite is done on '
        '32-bit words by TLC']
    return out.finish()


if __name__ == '__main__':
    tier = sys.argv[sys.argv.index('--tier') + 1] if '--tier' in sys.argv else 'quick'
    main_wrap(lambda: run(tier))
