"""C02: dimension slicing selects exactly the requested hyperslab."""
import random
import sys
from common import Outcome, main_wrap, seed
import core_driver as cd

PROP = 'C02'


def run(tier):
    out = Outcome(PROP, tier)
    rnd = random.Random(seed() * 7919 + 2)
    n = 600 if tier == 'quick' else 6000
    progs = [cd.gen_program(rnd, rnd.choice([1, 1, 2]), focus='slice')
             for _ in range(n)]
    # keep only slice steps as value-checked operations: other steps set up state
    cd.run_programs(out, progs, {'val'}, 'C02')
    out.cov['rule'] = ('random programs of 1-2 steps, 70% slices with int/'
                       'slice/list selectors on 1-3 dimensions; distinct = '
                       'template + per-step (action, dims, selector kinds)')
    return out.finish()


if __name__ == '__main__':
    tier = sys.argv[sys.argv.index('--tier') + 1] if '--tier' in sys.argv else 'quick'
    main_wrap(lambda: run(tier))
