"""C17: interpolation is linear-exact; conservative regridding conserves
column mass.  spec/Interp.tla holds the exact rational model; Interp_MC checks
the algebraic laws on every small grid pair and emits them; each is replayed on
getinterpweights / sigma2coeff / interpDimension / interpSigma and validated by
Interp_Trace."""
import random
import sys
from fractions import Fraction

import numpy as np

from common import (unique, Outcome, Machinery, run_tlc, need_ok, run_cases,
                    validate_traces, settle, seed, main_wrap)

PROP = 'C17'


def fr(x, single=False):
    """[n, d, ok]: the float as a small fraction; float32 results (interpSigma
    on IOAPI variables) identify fractions with denominator <= 400 to 2e-6."""
    x = float(x)
    if x != x or abs(x) > 1e6:
        return [0, 1, 0]
    f = Fraction(x).limit_denominator(400 if single else 5000)
    tol = 2e-6 if single else 1e-9
    ok = abs(float(f) - x) <= tol * max(1.0, abs(x))
    return [f.numerator, f.denominator, 1 if ok else 0]


def run_case(cs):
    import warnings
    warnings.simplefilter('ignore')
    import PseudoNetCDF as pnc
    from PseudoNetCDF.coordutil import getinterpweights, sigma2coeff
    tr = dict(cs)
    tr['res'] = 'ok'
    tr['exc'] = ''
    try:
        if cs['kind'] == 'w':
            # coordinates are cs['xs'] / sc stored with type xdt (integer
            # level indices, whole hPa ...), targets cs['nxs'] / sc
            sc = cs.get('sc', 1)
            w = getinterpweights((np.array(cs['xs'], 'd') / sc).astype(
                cs.get('xdt', 'd')), np.array(cs['nxs'], 'd') / sc,
                extrapolate=cs['ex'])
            tr['got'] = [[fr(x) for x in row] for row in np.asarray(w)]
        elif cs['kind'] == 'c':
            c = sigma2coeff(np.array(cs['F'], 'd') / 8.,
                            np.array(cs['T'], 'd') / 8.)
            tr['got'] = [[fr(x) for x in row] for row in np.asarray(c)]
        elif cs['kind'] == 'app':
            n = len(cs['xs'])
            f = pnc.PseudoNetCDFFile()
            f.createDimension('t', 2)
            f.createDimension('z', n)
            f.createDimension('x', 2)
            sc = cs.get('sc', 1)
            z = f.createVariable('z', cs.get('xdt', 'd'), ('z',))
            z[:] = (np.array(cs['xs'], 'd') / sc).astype(cs.get('xdt', 'd'))
            v = f.createVariable('D', 'd', ('t', 'z', 'x'))
            lane = np.array(cs['d'], 'd')
            v[...] = 0
            v[cs['lane'][0], :, cs['lane'][1]] = lane
            g = f.interpDimension('z', np.array(cs['nxs'], 'd') / sc,
                                  extrapolate=cs['ex'])
            out = g.variables['D'][cs['lane'][0], :, cs['lane'][1]]
            tr['got'] = [fr(x) for x in np.asarray(out)]
            tr['shape_ok'] = list(g.variables['D'].shape) == \
                [2, len(cs['nxs']), 2] and len(g.dimensions['z']) == \
                len(cs['nxs'])
        elif cs['kind'] == 'appnd':
            # N-D coordinate variables: every (t, x) column has its own source
            # and target coordinate
            from PseudoNetCDF.core._variables import PseudoNetCDFVariable
            cols = cs['cols']
            n, m = len(cols[0]['xs']), len(cols[0]['nxs'])
            f = pnc.PseudoNetCDFFile()
            f.createDimension('t', 2)
            f.createDimension('z', n).setunlimited(bool(cs.get('zunlim')))
            f.createDimension('x', 2)
            zc = f.createVariable('zc', 'd', ('t', 'z', 'x'))
            v = f.createVariable('D', 'd', ('t', 'z', 'x'))
            new = np.zeros((2, m, 2), 'd')
            for q, c in enumerate(cols):
                zc[q // 2, :, q % 2] = c['xs']
                v[q // 2, :, q % 2] = c['d']
                new[q // 2, :, q % 2] = c['nxs']
            newv = PseudoNetCDFVariable(f, 'zc', 'd', ('t', 'z', 'x'),
                                        values=new)
            g = f.interpDimension('z', newv, coordkey='zc',
                                  extrapolate=cs['ex'])
            tr['cols'] = []
            for q, c in enumerate(cols):
                c = dict(c)
                c['got'] = [fr(x) for x in np.asarray(
                    g.variables['D'][q // 2, :, q % 2])]
                c['gotz'] = [fr(x) for x in np.asarray(
                    g.variables['zc'][q // 2, :, q % 2])]
                tr['cols'].append(c)
            tr['shape_ok'] = list(g.variables['D'].shape) == [2, m, 2] and \
                len(g.dimensions['z']) == m
            # surviving dimensions keep their unlimited flag (C01)
            tr['flags_ok'] = bool(
                g.dimensions['z'].isunlimited() == bool(cs.get('zunlim')) and
                not g.dimensions['t'].isunlimited() and
                not g.dimensions['x'].isunlimited())
        elif cs['kind'] == 'sig':
            from PseudoNetCDF.cmaqfiles import ioapi_base
            nl = len(cs['F']) - 1
            a = np.zeros((1, nl, 1, 2), 'f')
            a[0, :, 0, 1] = cs['d']
            newtop = cs.get('vt1', 0) != cs.get('vt0', 0)
            f = ioapi_base.from_arrays(
                O3=a, fileattrs=dict(SDATE=2011001, STIME=0, TSTEP=10000,
                                     VGLVLS=np.array(cs['F'], 'f') / 8.,
                                     VGTOP=float(cs['vt0']) if newtop
                                     else 5000.))
            if newtop:      # target edges relative to another model top
                # (from_arrays resets VGTOP to its default)
                f.VGTOP = np.float32(cs['vt0'])
                g = f.interpSigma(np.array(cs['T'], 'f') / float(cs['k2']),
                                  vgtop=float(cs['vt1']),
                                  interptype=cs['itype'])
            else:
                g = f.interpSigma(np.array(cs['T'], 'f') / 8.,
                                  interptype=cs['itype'])
            out = g.variables['O3'][0, :, 0, 1]
            tr['got'] = [fr(x, single=True) for x in np.asarray(out, 'd')]
    except Exception as ex:
        tr['res'] = 'raised'
        tr['exc'] = '%s: %s' % (type(ex).__name__, str(ex)[:80])
        tr['got'] = []
    return tr


def run_nd_structure(out, rnd, tier):
    """C01 on interpDimension with N-D coordinates: the result is well-formed
    and the interpolated dimension keeps its unlimited flag."""
    todo = []
    for i in range(60 if tier == 'quick' else 600):
        n = rnd.randint(2, 4)
        m = rnd.randint(1, 4)
        cols = []
        for q in range(4):
            xs = sorted(rnd.sample(range(0, 12), n))
            cols.append({'xs': xs, 'nxs': [rnd.randint(0, 12)
                                           for _ in range(m)],
                         'd': [rnd.randint(-20, 60) for _ in xs]})
        todo.append({'kind': 'appnd', 'ex': rnd.random() < 0.5, 'cols': cols,
                     'zunlim': rnd.random() < 0.7, 'tid': 800000 + i})
    res = run_cases(run_case, todo, timeout=60, per_child=50, chunksize=5)
    for c, t in zip(todo, res):
        if '_crash' in t or '_hang' in t:
            raise Machinery('interp case failed: %r %r' % (c, t))
    out.cov['evaluations'] += len(res)
    verdicts = validate_traces('Interp_Trace', res, out, shard=1500,
                               label='C01-interp-nd')
    settle(out, res, verdicts, None)


def run(tier):
    out = Outcome(PROP, tier)
    rnd = random.Random(seed() * 7919 + 17)
    maxsrc = 3 if tier == 'quick' else 4
    r = need_ok(run_tlc('Interp_MC', workers=1, timeout=3000, heap='8g',
                        env={'PNC_IP_MAXSRC': maxsrc, 'PNC_EMIT': '1'}),
                'Interp_MC')
    out.add_tlc('Interp_MC: all grid pairs, source length 2..%d' % maxsrc, r,
                'weight laws + conservation laws + emission')
    if r.violated:
        out.model_violation(r, 'Interp_MC')
    cases = unique([p for p in r.prints
                    if isinstance(p, dict) and 'kind' in p])
    if not cases:
        raise Machinery('Interp_MC emitted nothing')
    out.cov['cases_emitted'] = len(cases)
    if tier == 'quick':
        ws = [c for c in cases if c['kind'] == 'w']
        cs = [c for c in cases if c['kind'] == 'c']
        cases = rnd.sample(ws, min(len(ws), 3000)) + cs
        out.exhaustive = False
    else:
        out.exhaustive = True
    # applications along a dimension of a variable, and interpSigma
    apps = []
    for c in rnd.sample([c for c in cases if c['kind'] == 'w'],
                        400 if tier == 'quick' else 4000):
        apps.append({'kind': 'app', 'xs': c['xs'], 'nxs': c['nxs'],
                     'ex': c['ex'], 'lane': [rnd.randint(0, 1),
                                             rnd.randint(0, 1)],
                     'd': [rnd.randint(-20, 60) for _ in c['xs']]})
    # columns of an N-D coordinate: grid pairs of one shape; neighbouring
    # columns often share the source or the target coordinate
    groups = {}
    for c in cases:
        if c['kind'] == 'w' and len(c['xs']) >= 2:
            groups.setdefault((len(c['xs']), len(c['nxs']), c['ex']),
                              []).append(c)
    gkeys = sorted(groups)
    for i in range(150 if tier == 'quick' else 1500):
        gk = rnd.choice(gkeys)
        pool_ = groups[gk]
        cols = []
        for q in range(4):
            c = rnd.choice(pool_)
            col = {'xs': c['xs'], 'nxs': c['nxs']}
            if cols and rnd.random() < 0.5:
                col['xs'] = cols[-1]['xs']
            elif cols and rnd.random() < 0.3:
                col['nxs'] = cols[-1]['nxs']
            col['d'] = [rnd.randint(-20, 60) for _ in col['xs']]
            cols.append(col)
        apps.append({'kind': 'appnd', 'ex': gk[2], 'cols': cols,
                     'zunlim': rnd.random() < 0.5})
    for c in [c for c in cases if c['kind'] == 'c']:
        if rnd.random() < (0.5 if tier == 'quick' else 1.0):
            apps.append({'kind': 'sig', 'F': c['F'], 'T': c['T'],
                         'itype': rnd.choice(['linear', 'conserve']),
                         'd': [rnd.randint(1, 40) for _ in c['F'][:-1]],
                         'vt0': 5000, 'vt1': 5000, 'k2': 8})
    # interpSigma to a grid relative to another model top (tops 60000 ->
    # 18675 Pa: sigma' = (sigma + 1) / 2, exact in sixteenths); the target
    # edges lie inside the converted source range
    for c in [c for c in cases if c['kind'] == 'c']:
        if rnd.random() < (0.5 if tier == 'quick' else 1.0):
            lo, hi = c['F'][-1] + 8, c['F'][0] + 8
            inner = [x for x in range(lo + 1, hi)]
            k = rnd.randint(0, min(3, len(inner)))
            T = sorted(rnd.sample(inner, k) + [lo, hi], reverse=True)
            if rnd.random() < 0.3 and len(T) > 2:
                T = T[1:]       # not sharing the bottom edge
            apps.append({'kind': 'sig', 'F': c['F'], 'T': T,
                         'itype': rnd.choice(['linear', 'conserve']),
                         'd': [rnd.randint(1, 40) for _ in c['F'][:-1]],
                         'vt0': 60000, 'vt1': 18675, 'k2': 16})
    # single-level sources / longer random grids beyond the model bound
    for i in range(50):
        apps.append({'kind': 'w', 'xs': [rnd.randint(0, 6)],
                     'nxs': [rnd.randint(0, 8)], 'ex': False})
    for i in range(200 if tier == 'quick' else 2000):
        n = rnd.randint(4, 7)
        xs = sorted(rnd.sample(range(0, 40), n))
        if rnd.random() < 0.5:
            xs = xs[::-1]
        nxs = [rnd.randint(-3, 43) for _ in range(rnd.randint(1, 5))]
        apps.append({'kind': 'w', 'xs': xs, 'nxs': nxs,
                     'ex': rnd.random() < 0.5})
    # the same grids far from the origin (epoch seconds, julian days, heights
    # above sea level): coordinates that are large compared with their spacing
    far = []
    pool_w = [c for c in cases if c['kind'] == 'w' and len(c['xs']) >= 2]
    pool_a = [c for c in apps if c['kind'] == 'app' and len(c['xs']) >= 2]
    for c in rnd.sample(pool_w, min(len(pool_w), 400 if tier == 'quick'
                                    else 4000)) + \
            rnd.sample(pool_a, min(len(pool_a), 150 if tier == 'quick'
                                   else 1500)):
        off = rnd.choice([100000, 2450000, 1600000000])
        d = dict(c)
        d['xs'] = [x + off for x in c['xs']]
        d['nxs'] = [x + off for x in c['nxs']]
        far.append(d)
    out.cov['far_from_origin_cases'] = len(far)
    # coordinates stored as integers (or single precision) with targets
    # between them: the grids in half units, sources on even values
    typed = []
    for c in rnd.sample(pool_w, min(len(pool_w), 400 if tier == 'quick'
                                    else 4000)) + \
            rnd.sample(pool_a, min(len(pool_a), 150 if tier == 'quick'
                                   else 1500)):
        d = dict(c)
        d['xs'] = [2 * x for x in c['xs']]
        d['nxs'] = [2 * x + rnd.choice([0, 1, 1]) for x in c['nxs']]
        d['sc'] = 2
        d['xdt'] = rnd.choice(['i', 'l', 'f', 'd'])
        typed.append(d)
    out.cov['typed_coordinate_cases'] = len(typed)
    todo = cases + apps + far + typed
    for i, c in enumerate(todo):
        c['tid'] = i + 1
    res = run_cases(run_case, todo, timeout=60, per_child=400, chunksize=40)
    traces = []
    for c, t in zip(todo, res):
        if '_crash' in t or '_hang' in t:
            raise Machinery('interp case failed: %r %r' % (c, t))
        traces.append(t)
    out.cov['evaluations'] = len(traces)
    out.cov['distinct_nontrivial'] = len(set(
        (t['kind'], tuple(t.get('xs', [])), tuple(t.get('nxs', [])),
         repr(t.get('cols', [])),
         t.get('ex'), tuple(t.get('F', [])), tuple(t.get('T', [])),
         t.get('itype')) for t in traces if t['res'] == 'ok'))
    out.cov['rule'] = ('a case is one source/target grid pair (weights, '
                       'overlap coefficients) or one application to an '
                       'integer profile; non-trivial = the call returned; '
                       'distinct = different grids/options')
    for t in traces[:1] + [t for t in traces if t['kind'] == 'c'][:1] + \
            [t for t in traces if t['kind'] == 'sig'][:1]:
        out.sample({k: t[k] for k in t if k != 'tid'})
    verdicts = validate_traces('Interp_Trace', traces, out, shard=1500)
    settle(out, traces, verdicts, None)
    # interpDimension as an operation of the PncCore machine: programs over
    # the core templates (every variable that has the dimension, coordinate
    # variable included, after other operations) validated by PncCore_Trace
    # against PncInterp.tla
    import core_driver as cd
    progs = [cd.gen_program(rnd, rnd.choice([1, 2, 3]), focus='interp',
                            templates=['T1', 'T3', 'T5', 'T7'])
             for _ in range(150 if tier == 'quick' else 1500)]
    progs += cd.interp_argument_programs()
    cd.run_programs(out, progs, {'val'}, 'C17-core', prop='C17')
    out.assumptions = [
        'integer coordinates (sigma edges in 1/8 units, exact in float32): the exact weights '
        'are small rationals and the float results identify them to 1e-9',
        'linear exactness for arbitrary float fields holds only up to '
        'rounding and is not decided']
    return out.finish()


if __name__ == '__main__':
    tier = sys.argv[sys.argv.index('--tier') + 1] if '--tier' in sys.argv else 'quick'
    main_wrap(lambda: run(tier))
