"""Entry for the CAMx checks C08, C09, C13, C14 (see camx.py)."""
import random
import sys
from common import Outcome, Machinery, run_cases, validate_traces, settle, \
    seed, main_wrap
import camx


def run(prop, tier):
    out = Outcome(prop, tier)
    rnd = random.Random(seed() * 7919 + int(prop[1:]))
    items = camx.emit_layouts(out, tier, prop)
    # the meteorological formats (one3d, humidity, vertical diffusivity,
    # temperature, height/pressure)
    items += camx.emit_layouts(out, tier, prop + ' met formats', family='met')
    out.cov['configurations_emitted'] = len(items)
    traces = []
    if prop == 'C13':       # formats that have both reader families
        items = [it for it in items if it['cfg']['fmt'] not in
                 ('cloud_rain', 'lateral_boundary', 'landuse')]
    if prop == 'C14':       # land use has no time steps (not in C14's scope)
        items = [it for it in items if it['cfg']['fmt'] != 'landuse']
    if prop in ('C09', 'C13'):
        args = [(i + 1, it) for i, it in enumerate(items)]
        res = run_cases(camx.case_encode_read, args, timeout=60,
                        per_child=20, chunksize=2)
        traces += res
        # files of one size and format with different layer / step splits at
        # one path (e.g. 2 layers x 3 steps, then 3 layers x 2 steps)
        groups = {}
        for it in items:
            c = it['cfg']
            key = (c['fmt'], c['nx'] * c['ny'], c['year'], c['jjj'],
                   c['hour'], c.get('hdr3'), c.get('dth'), c.get('nv'),
                   it['bytes'])
            groups.setdefault(key, []).append(it)
        gargs = []
        for key, its in sorted(groups.items(), key=lambda kv: str(kv[0])):
            if len(set((it['cfg']['nz'], it['cfg']['nt']) for it in its)) > 1:
                gargs.append((300000 + 10 * len(gargs), its[:4]))
                gargs.append((400000 + 10 * len(gargs), its[:4][::-1]))
        out.cov['same_path_groups'] = len(gargs)
        for g in run_cases(camx.case_same_path, gargs, timeout=120,
                           per_child=5, chunksize=1):
            if '_crash' in g or '_hang' in g:
                traces.append(g)
            else:
                traces += g['traces']
    if prop in ('C09', 'C08'):
        its = []
        for it in items:
            if it['cfg']['fmt'] == 'wind' and not it['cfg']['hdr3']:
                continue    # the writer produces the three-word time record
            if it['cfg'].get('nz0'):
                continue    # the writer produces the layer count of the data
            for etf in (True, False):
                it2 = dict(it)
                it2['cfg'] = dict(it['cfg'], with_etflag=etf)
                its.append(it2)
        args = [(100000 + i, it) for i, it in enumerate(its)]
        res = run_cases(camx.case_write_walk, args, timeout=60, per_child=20,
                        chunksize=2)
        traces += res
    if prop == 'C14':
        args = []
        if tier != 'quick':
            sel = items
        else:       # a sample of every format
            sel = []
            for fmt in sorted(set(it['cfg']['fmt'] for it in items)):
                grp = [it for it in items if it['cfg']['fmt'] == fmt]
                # always the configurations with the most steps and layers
                # (cuts inside later steps, several records per step) ...
                top = max((it['cfg']['nt'], it['cfg']['nz']) for it in grp)
                must = [it for it in grp
                        if (it['cfg']['nt'], it['cfg']['nz']) == top][:2]
                rest = [it for it in grp if it not in must]
                # ... and a sample of the others
                sel += must + rnd.sample(rest, min(len(rest),
                                                   (12 if fmt == 'uamiv'
                                                    else 5) - len(must)))
        for i, it in enumerate(sel):
            n = it['bytes']
            if n <= 1500 or tier != 'quick':
                cuts = list(range(0, n))
            else:
                # every record boundary +-1, every block boundary, a sample
                cuts = sorted(set(
                    [it['header'] + k * it['block'] + d
                     for k in range(0, it['cfg']['nt'] + 1)
                     for d in (-1, 0, 1, 4)] +
                    rnd.sample(range(0, n), 600)))
                cuts = [x for x in cuts if 0 <= x < n]
            args.append((200000 + i, it, cuts, 'memmap'))
            # the self-describing formats also in update mode
            if it['cfg']['fmt'] in ('uamiv', 'lateral_boundary') and \
                    (tier != 'quick' or i % 3 == 0):
                args.append((250000 + i, it, cuts, 'memmap+'))
        res = run_cases(camx.case_cuts, args, timeout=900, per_child=5,
                        chunksize=1)
        traces += res
        # a file of realistic size (about 1 MB): cuts around step boundaries,
        # read-only and update mode
        big = camx.emit_layouts(out, tier, prop + ' large file', family='big')
        res = run_cases(camx.case_bigcuts,
                        [(300000 + i, it) for i, it in enumerate(big)],
                        timeout=900, per_child=1)
        traces += res
    for t in traces:
        if '_crash' in t or '_hang' in t:
            raise Machinery('CAMx case failed: %r' % (t,))
    if prop == 'C14':
        out.cov['evaluations'] = sum(len(t['obs']) for t in traces)
        out.cov['large_file_cuts'] = sum(len(t['obs']) for t in traces
                                         if t['kind'] == 'bigcuts')
        out.cov['distinct_nontrivial'] = sum(
            1 for t in traces for o in t['obs'] if o['n'] > 0)
        out.cov['rule'] = ('a case is one (configuration, cut offset); '
                           'non-trivial = non-empty prefix; all distinct')
        for t in traces[:1] + traces[-1:]:
            out.sample({'cfg': {k: t['cfg'][k] for k in ('nx', 'ny', 'nz',
                                                         'nt', 'spc')},
                        'outcomes': [[o['n'], o['k'], o['steps']]
                                     for o in t['obs'][::97]]})
    else:
        out.cov['evaluations'] = len(traces)
        out.cov['distinct_nontrivial'] = len(set(
            (t['kind'], str(sorted((k, str(v)) for k, v in t['cfg'].items())))
            for t in traces))
        out.cov['rule'] = ('a case is one configuration (species names, grid, '
                           'steps, start instant, NAME, end-of-day spelling) '
                           'in one direction; distinct = different '
                           'configuration/direction')
        for t in traces[:2]:
            out.sample({'kind': t['kind'], 'cfg': {k: t['cfg'][k] for k in (
                'nx', 'ny', 'nz', 'nt', 'spc', 'year', 'jjj', 'hour')}})
    bres = []
    if prop == 'C14':
        # GEOS-Chem binary punch files
        import bpchcuts
        bres = bpchcuts.run_bpch_cuts(out, tier, rnd)
        out.cov['evaluations'] += sum(len(t['obs']) for t in bres)
        out.cov['distinct_nontrivial'] += sum(
            1 for t in bres for o in t['obs'] if o['n'] > 0)
    if prop == 'C13':
        # the record cursor on which every sequential reader is built
        import recordfile
        recordfile.run_recordfile(out, tier, rnd)
    verdicts = validate_traces('Camx_Trace', traces, out, shard=60,
                               env={'PNC_CAMX_PROP': prop}, label=prop,
                               timeout=3000)
    settle(out, traces, verdicts, None)
    out.assumptions = [
        'data are integer tokens (exact in float32); arbitrary float payloads '
        'are covered by the byte-identity clause of C08 only',
        'formats covered: uamiv (average/emissions); the other CAMx formats '
        'are listed in DESIGN.md as not yet modelled']
    return out.finish()


if __name__ == '__main__':
    prop = sys.argv[1]
    tier = sys.argv[sys.argv.index('--tier') + 1] if '--tier' in sys.argv else 'quick'
    main_wrap(lambda: run(prop, tier))
