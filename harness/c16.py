"""C16: value-to-index lookup returns the containing or nearest cell.

spec/Lookup.tla states the allowed observations; Lookup_MC enumerates every
configuration over a small lattice, checks the property's sanity invariants
and emits the configurations; each is replayed on val2idx (one call per probe)
and the observations are validated by Lookup_Trace.
"""
import random
import sys
import warnings

import numpy as np

from common import (unique, Outcome, Machinery, run_tlc, need_ok, run_cases,
                    validate_traces, settle, seed, main_wrap)

PROP = 'C16'


# reference instants of the datetime families: (spelling in the units
# attribute, civil fields <<Y, M, D, h, m, s, utc offset in minutes>>)
REFS = [
    ('2000-01-01 00:00:00', [2000, 1, 1, 0, 0, 0, 0]),
    ('1999-12-31 18:00:00', [1999, 12, 31, 18, 0, 0, 0]),
    ('2012-02-28 12:00:00 UTC', [2012, 2, 28, 12, 0, 0, 0]),
    ('2100-02-27 21:30:00Z', [2100, 2, 27, 21, 30, 0, 0]),
    ('1970-01-01', [1970, 1, 1, 0, 0, 0, 0]),
    ('2003-12-31 23:00:00+0100', [2003, 12, 31, 23, 0, 0, 60]),
    ('2004-02-29 06', [2004, 2, 29, 6, 0, 0, 0]),
]
UNITS = {'days': 86400, 'hours': 3600, 'minutes': 60, 'seconds': 1}


def _probe_time(cf, p):
    """datetime object for probe value p (in the coordinate's unit) and its
    civil fields as passed to the library."""
    from datetime import datetime, timedelta, timezone
    r = cf['ref']
    ref = datetime(r[0], r[1], r[2], r[3], r[4], r[5],
                   tzinfo=timezone(timedelta(minutes=r[6])))
    t = ref + timedelta(seconds=p * UNITS[cf['unit']])
    tz = cf['tz']
    if tz == 'naive':
        t = t.astimezone(timezone.utc).replace(tzinfo=None)
        off = 0
    else:
        t = t.astimezone(timezone(timedelta(minutes=tz)))
        off = tz
    return t, [t.year, t.month, t.day, t.hour, t.minute, t.second, off]


def run_config(cf):
    import PseudoNetCDF as pnc
    c = cf['c']
    n = len(c)
    kind = cf.get('kind', 'val')
    x = 'time' if kind == 't2t' else 'x'
    f = pnc.PseudoNetCDFFile()
    f.createDimension(x, n)
    # (cf['sc'] = 2: the model's values are in half units of the file's - a
    # coordinate of storage type cf['cdt'] (integer, float32) is then queried
    # with values between its representable neighbours)
    sc = cf.get('sc', 1)
    v = f.createVariable(x, cf.get('cdt', 'd'), (x,))
    v[:] = [ci // sc for ci in c] if sc != 1 else c
    if kind != 'val':
        v.units = '%s since %s' % (cf['unit'], cf['refs'])
    if cf['rep'] == 'edges':
        f.createDimension('xe', n + 1)
        b = f.createVariable(x + '_bounds', 'd', ('xe',))
        b[:] = np.array(cf['e'], 'd') / sc
    elif cf['rep'] == 'nx2':
        f.createDimension('nv', 2)
        b = f.createVariable(x + ('_bounds' if kind == 't2t' else '_bnds'),
                             'd', (x, 'nv'))
        b[:, 0] = np.array(cf['e'][:-1], 'd') / sc
        b[:, 1] = np.array(cf['e'][1:], 'd') / sc
    kw = dict(method=cf['method'], bounds=cf['bnd'], clean=cf['clean'])
    if cf['nan']:
        kw['left'] = np.nan
        kw['right'] = np.nan
    if cf.get('rs'):        # an explicit value for the right side only
        kw['right'] = cf['rs']
    obs = []
    if cf.get('arr'):
        # one call with the whole (possibly 2-D) array of query values
        import io
        import contextlib
        err = io.StringIO()
        vals = np.array([float(p) / sc for p in cf['probes']])
        if cf['arr'] == '2d' and vals.size % 2 == 0:
            vals = vals.reshape(2, -1)
        with warnings.catch_warnings(record=True) as wl, \
                contextlib.redirect_stderr(err):
            warnings.simplefilter('always')
            try:
                with np.errstate(all='ignore'):
                    r = np.ma.asarray(f.val2idx('x', vals, **kw))
                ok = r.shape == vals.shape
                r = r.ravel()
                ms = np.ma.getmaskarray(r)
                obl = [{'k': 'masked', 'i': 0} if ms[q] else
                       {'k': 'idx', 'i': int(np.ma.getdata(r)[q])}
                       for q in range(r.size)] if ok else \
                    [{'k': 'raised', 'i': 0, 'exc': 'shape'}] * vals.size
            except Exception as ex:
                obl = [{'k': 'raised', 'i': 0,
                        'exc': type(ex).__name__}] * vals.size
            w = any('out of bounds' in str(x.message).lower() for x in wl) \
                or 'out of bounds' in err.getvalue().lower()
        for p, ob in zip(cf['probes'], obl):
            obs.append({'v': int(p), 'ob': ob, 'w': bool(w)})
    for p in ([] if cf.get('arr') else cf['probes']):
        import io
        import contextlib
        err = io.StringIO()
        civ = None
        # the library's warn() writes through its own showwarning to stderr
        with warnings.catch_warnings(record=True) as wl, \
                contextlib.redirect_stderr(err):
            warnings.simplefilter('always')
            try:
                with np.errstate(all='ignore'):
                    if kind == 'time':
                        t, civ = _probe_time(cf, p)
                        arg = [t] if cf['argform'] == 'list' else np.array([t])
                        r = f.time2idx(arg, dim='x', **kw)
                    elif kind == 't2t':
                        t, civ = _probe_time(cf, p)
                        r = f.time2t(np.array([t]), ttype=cf['ttype'])
                    else:
                        r = f.val2idx('x', np.array([float(p) / sc]), **kw)
                r = np.ma.asarray(r).ravel()
                if np.ma.getmaskarray(r)[0]:
                    ob = {'k': 'masked', 'i': 0}
                else:
                    ob = {'k': 'idx', 'i': int(np.ma.getdata(r)[0])}
            except Exception as ex:
                ob = {'k': 'raised', 'i': 0, 'exc': type(ex).__name__}
            w = any('out of bounds' in str(x.message).lower() for x in wl) \
                or 'out of bounds' in err.getvalue().lower()
        o = {'v': int(p), 'ob': ob, 'w': bool(w)}
        if civ is not None:
            o['civ'] = civ
        obs.append(o)
    out = dict(cf)
    out['kind'] = kind
    out['obs'] = obs
    ca = (np.asarray(f.variables[x][...], dtype='d') * sc).tolist()
    out['c_after'] = [int(x) if float(x).is_integer() else -999999
                      for x in ca]
    return out


def time_family(rnd, base, n_time, n_t2t):
    """Datetime variants of lookup configurations: the same coordinate with CF
    units, probed with datetime objects (UTC, another zone, naive)."""
    out = []
    # (small values only: a coordinate value is a number of days / hours /
    # minutes since the reference, and the model computes in 32 bits)
    pool = [cf for cf in base if 'sc' not in cf and
            max(abs(x) for x in cf['c']) < 5000]
    rnd.shuffle(pool)
    for cf in pool[:n_time]:
        d = {k: cf[k] for k in ('c', 'rep', 'e', 'method', 'clean', 'bnd',
                                'nan', 'probes')}
        refs, ref = rnd.choice(REFS)
        d.update(kind='time', unit=rnd.choice(sorted(UNITS)), refs=refs,
                 ref=ref, tz=rnd.choice(['naive', 0, 0, 330, -480]),
                 argform=rnd.choice(['list', 'array']))
        out.append(d)
    k = 0
    for cf in pool:
        if k >= n_t2t:
            break
        c = cf['c']
        asc = c[0] < c[1]
        uniform = all(c[i + 1] - c[i] == c[1] - c[0] for i in range(len(c) - 1))
        # time2t reads getTimes(bounds=True): explicit n x 2 time_bounds, or
        # half a step around the centres of a uniform axis; times ascend
        if not asc or cf['rep'] == 'edges' or (cf['rep'] == 'none'
                                               and not uniform):
            continue
        d = {k2: cf[k2] for k2 in ('c', 'rep', 'e', 'method', 'clean', 'bnd',
                                   'nan', 'probes')}
        refs, ref = rnd.choice(REFS)
        d.update(kind='t2t', unit=rnd.choice(['days', 'hours', 'minutes']),
                 refs=refs, ref=ref, tz=rnd.choice([0, 0, 330, -480]),
                 ttype=rnd.choice(['nearest', 'bounds', 'bounds_close']))
        out.append(d)
        k += 1
    return out


def run(tier):
    out = Outcome(PROP, tier)
    rnd = random.Random(seed() * 7919 + 16)
    maxlen = 3 if tier == 'quick' else 4
    r = need_ok(run_tlc('Lookup_MC', workers=1, timeout=3000, heap='8g',
                        env={'PNC_LK_MAXLEN': maxlen, 'PNC_EMIT': '1'}),
                'Lookup_MC')
    out.add_tlc('Lookup_MC: all configurations, coordinate length 2..%d'
                % maxlen, r, 'sanity invariants of the allowed-observation '
                'sets + emission')
    if r.violated:
        out.model_violation(r, 'Lookup_MC')
    cfgs = unique([p for p in r.prints
                   if isinstance(p, dict) and 'probes' in p])
    if not cfgs:
        raise Machinery('Lookup_MC emitted nothing')
    out.cov['configurations_emitted'] = len(cfgs)
    if tier == 'quick':
        cfgs = rnd.sample(cfgs, min(len(cfgs), 2500))
        out.exhaustive = False
    else:
        out.exhaustive = True
    # longer, non-uniform coordinates beyond the model bound (same property)
    extra = []
    for i in range(300 if tier == 'quick' else 3000):
        n = rnd.randint(4, 7)
        vals = sorted(rnd.sample(range(0, 200, 4), n))
        if rnd.random() < 0.5:
            vals = vals[::-1]
        e = [vals[0] - (vals[1] - vals[0]) // 2] + \
            [(a + b) // 2 for a, b in zip(vals[:-1], vals[1:])] + \
            [vals[-1] + (vals[-1] - vals[-2]) // 2]
        nan = rnd.random() < 0.5
        cf = {'c': vals, 'rep': rnd.choice(['none', 'edges', 'nx2']), 'e': e,
              'method': rnd.choice(['nearest', 'bounds', 'exact']),
              'clean': 'mask' if nan else rnd.choice(['none', 'mask']),
              'bnd': rnd.choice(['ignore', 'warn', 'error']), 'nan': nan}
        ps = set(vals) | set(e) | {x + 1 for x in e} | {x - 1 for x in e} | \
            {min(e) - 40, max(e) + 40}
        if rnd.random() < 0.4:      # typed coordinate, queries in half units
            cf['sc'] = 2
            cf['cdt'] = rnd.choice(['i', 'f', 'h'])
            ps |= {x + 1 for x in vals} | {x - 1 for x in vals}
        cf['probes'] = sorted(ps)
        extra.append(cf)
    # array queries on longer coordinates: values repeated within one call,
    # also values that are no coordinate value, 1-D and 2-D query arrays
    for i in range(250 if tier == 'quick' else 2500):
        n = rnd.randint(12, 30)
        vals = sorted(rnd.sample(range(0, 400, 4), n))
        if rnd.random() < 0.5:
            vals = vals[::-1]
        e = [vals[0] - (vals[1] - vals[0]) // 2] + \
            [(a + b) // 2 for a, b in zip(vals[:-1], vals[1:])] + \
            [vals[-1] + (vals[-1] - vals[-2]) // 2]
        nan = rnd.random() < 0.5
        cf = {'c': vals, 'rep': rnd.choice(['none', 'edges', 'nx2']), 'e': e,
              'method': rnd.choice(['nearest', 'bounds', 'exact', 'exact']),
              'clean': 'mask' if nan else rnd.choice(['none', 'mask']),
              'bnd': rnd.choice(['ignore', 'warn']), 'nan': nan,
              'arr': rnd.choice(['1d', '2d'])}
        ps = [rnd.choice(vals) for _ in range(2)] + \
            [rnd.choice(vals) + rnd.choice([1, 2, -1]) for _ in range(2)] + \
            [min(e) - 40, max(e) + 40, rnd.choice(e)]
        ps = ps + [rnd.choice(ps) for _ in range(rnd.randint(1, 3))]
        rnd.shuffle(ps)
        cf['probes'] = ps
        if rnd.random() < 0.4:
            cf['sc'] = 2
            cf['cdt'] = rnd.choice(['i', 'f', 'h'])
        extra.append(cf)
    # narrow integer coordinates with LARGE values (pressure in Pa as int16,
    # epoch seconds as int32) and no bounds variable: the edges are derived
    # from the centres - sums of neighbours exceed the type's range
    for i in range(120 if tier == 'quick' else 1200):
        n = rnd.randint(2, 6)
        cdt = rnd.choice(['h', 'i'])
        lo, hi, st = (16400, 32700, 100) if cdt == 'h' else \
            (1073741900, 2147483000, 3600)
        vals = sorted(lo + st * k for k in rnd.sample(
            range(0, (hi - lo) // st), n))
        if rnd.random() < 0.5:
            vals = vals[::-1]
        vals = [2 * x for x in vals]            # the model's half units
        e = [vals[0] - (vals[1] - vals[0]) // 2] + \
            [(a + b) // 2 for a, b in zip(vals[:-1], vals[1:])] + \
            [vals[-1] + (vals[-1] - vals[-2]) // 2]
        cf = {'c': vals, 'rep': 'none', 'e': e,
              'method': rnd.choice(['bounds', 'bounds', 'nearest']),
              'clean': rnd.choice(['none', 'mask']),
              'bnd': rnd.choice(['ignore', 'warn']), 'nan': False,
              'sc': 2, 'cdt': cdt}
        if cdt == 'i':
            # (the model's integers are 32-bit: values relative to a base)
            continue
        ps = set(vals) | {x + 2 for x in e[1:-1]} | {x - 2 for x in e[1:-1]}
        cf['probes'] = sorted(ps)
        extra.append(cf)
    # an explicit finite value for the right side (left omitted): what is
    # returned above the last edge, method 'bounds', ascending coordinates
    for i in range(150 if tier == 'quick' else 1500):
        n = rnd.randint(2, 6)
        vals = sorted(rnd.sample(range(0, 120, 4), n))
        e = [vals[0] - (vals[1] - vals[0]) // 2] + \
            [(a + b) // 2 for a, b in zip(vals[:-1], vals[1:])] + \
            [vals[-1] + (vals[-1] - vals[-2]) // 2]
        # (bounds given explicitly; the value is no index of the coordinate
        # and not n, which the reader folds into the last cell as "on the
        # outermost edge")
        cf = {'c': vals, 'rep': rnd.choice(['edges', 'nx2']), 'e': e,
              'method': 'bounds', 'clean': rnd.choice(['none', 'mask']),
              'bnd': rnd.choice(['ignore', 'warn']), 'nan': False,
              'rs': rnd.choice([999, 555])}
        ps = set(vals) | set(e) | {x + 1 for x in e} | {x - 1 for x in e} | \
            {max(e) + 40, max(e) + 2}
        cf['probes'] = sorted(p for p in ps if p >= min(e))
        extra.append(cf)
    for cf in cfgs + extra:
        cf['kind'] = 'val'
    # the datetime front-ends time2idx and time2t on the same configurations
    fam = time_family(rnd, cfgs + extra, 500 if tier == 'quick' else 6000,
                      250 if tier == 'quick' else 3000)
    out.cov['datetime_cases'] = {'time2idx': sum(1 for d in fam if d['kind'] == 'time'),
                                 'time2t': sum(1 for d in fam if d['kind'] == 't2t')}
    todo = cfgs + extra + fam
    for i, cf in enumerate(todo):
        cf['tid'] = i + 1
    res = run_cases(run_config, todo, timeout=60, per_child=300, chunksize=30)
    traces = []
    for cf, t in zip(todo, res):
        if '_crash' in t or '_hang' in t:
            raise Machinery('lookup configuration failed: %r %r' % (cf, t))
        traces.append(t)
    out.cov['evaluations'] = sum(len(t['obs']) for t in traces)
    out.cov['distinct_nontrivial'] = len(set(
        (tuple(t['c']), t['rep'], t['method'], t['clean'], t['bnd'], t['nan'],
         t['kind'], t.get('unit'), t.get('refs'), t.get('ttype'), str(t.get('tz')))
        for t in traces))
    out.cov['rule'] = ('a case is one configuration (coordinate, bounds '
                       'representation, method, clean, bounds option, '
                       'left/right) probed at every centre, edge, edge+-1 and '
                       'far outside; all are non-trivial; distinct = '
                       'different configuration')
    for t in traces[:2] + traces[-1:]:
        out.sample({k: t[k] for k in ('c', 'rep', 'method', 'clean', 'bnd',
                                      'nan', 'obs')})
    verdicts = validate_traces('Lookup_Trace', traces, out, shard=1500)
    settle(out, traces, verdicts, None)
    out.assumptions = [
        'coordinates and probes are multiples of 4 / integers so that float '
        'arithmetic in np.interp is exact at centres and mid-point edges',
        'out-of-range with bounds=ignore/warn and left/right=None: the '
        'documented np.interp clamping to the end cell is accepted',
        'left/right=nan with clean="none" is not exercised (contradictory '
        'request)']
    return out.finish()


if __name__ == '__main__':
    tier = sys.argv[sys.argv.index('--tier') + 1] if '--tier' in sys.argv else 'quick'
    main_wrap(lambda: run(tier))
