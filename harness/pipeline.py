"""The command line pipeline (spec/Pipeline.tla): options of different kinds
are applied in a fixed order of kinds (masks, slices, reductions,
convolutions, expressions).  Pipeline_MC checks the order laws on every command
line of up to 3 options over a catalogue of abstract options and emits them;
each is given concrete arguments for a template, run through
pnc(*args, ifiles=[template]) and validated by Pipeline_Trace against
Result(template, options)."""
import json

import numpy as np

from common import (unique, Machinery, run_tlc, need_ok, run_cases,
                    validate_traces, settle)
import core_driver as cd

# per template: two dimensions and the variables used by the expressions
SLOTS = {
    'T1': {'d': ['x', 'y'], 'v': ['A', 'B'], 'thr': [105, 202]},
    'T2': {'d': ['x', 't'], 'v': ['C', 'N'], 'thr': [132, 152]},
    'T3': {'d': ['x', 'y'], 'v': ['P', 'R'], 'thr': [305, 332]},
    'T4': {'d': ['y', 't'], 'v': ['D', 'H'], 'thr': [402, 1]},
    'T7': {'d': ['z', 'x'], 'v': ['F', 'G'], 'thr': [712, 763]},
}
KINDS_OF = {'C02': {'slice'}, 'C03': {'reduce', 'convolve'},
            'C06': {'mask', 'expr'}}


def concrete(tpl, opt, n):
    """(spec-form option, command line strings) of abstract option (k, slot)."""
    s = SLOTS[tpl]
    k, i = opt['k'], opt['a'] - 1
    if k == 'mask':
        pk = ['greater', 'less'][i]
        a = {'p': [{'k': pk, 'v': s['thr'][i]}],
             'where': {'h': False, 'shape': [], 'bits': []},
             'usedims': {'h': False, 'v': []}, 'coords': True}
        return {'k': k, 'a': a}, ['-m', '%s,%d' % (pk, s['thr'][i])]
    if k == 'slice':
        d = s['d'][i]
        sel = [{'k': 'slice', 'h': [True, False, False], 'v': [1, 0, 0]},
               {'k': 'int', 'v': 0}][i]
        a = {'sels': [{'d': d, 's': sel}], 'newdim': 'POINTS'}
        return {'k': k, 'a': a}, ['-s', '%s,1,None,None' % d if i == 0
                                  else '%s,0' % d]
    if k == 'reduce':
        d, fn = s['d'][i], ['mean', 'max'][i]
        a = {'funcs': [{'d': d, 'kind': 'reducer', 'f': fn}]}
        return {'k': k, 'a': a}, ['-r', '%s,%s' % (d, fn)]
    if k == 'convolve':
        d, fn = s['d'][i], ['conv11f', 'conv121s'][i]
        a = {'funcs': [{'d': d, 'kind': 'callable', 'f': fn}]}
        return {'k': k, 'a': a}, ['-c', '%s,%s' % (d, cd.CONVDEFS[fn])]
    if k == 'expr':
        v = s['v'][i]
        e = {'t': 'bin', 'op': ['*', '+'][i], 'l': {'t': 'var', 'k': v},
             'r': [{'t': 'int', 'v': 2}, {'t': 'var', 'k': v}][i]}
        name = 'NEW%d' % n
        a = {'assign': [{'name': name, 'e': e}], 'copyall': True}
        return {'k': k, 'a': a}, ['--expr', '%s = %s' % (name,
                                                         cd.expr_str(e))]
    raise ValueError(opt)


def case_line(arg):
    import warnings
    warnings.simplefilter('ignore')
    tid, tpl, line = arg
    from project import project
    from PseudoNetCDF.pncparse import pnc
    f = cd.template(tpl)
    tr = {'tid': tid, 'template': tpl, 'init': project(f), 'opts': [],
          'argv': [], 'res': 'ok', 'exc': '', 'got': project(f)}
    argv = []
    for n, o in enumerate(line):
        so, strs = concrete(tpl, o, n)
        tr['opts'].append(so)
        argv += strs
    tr['argv'] = argv
    try:
        with np.errstate(all='ignore'):
            g = pnc(*argv, ifiles=[f])
        g = cd._drop_history(cd.template(tpl), g)
        tr['got'] = project(g)
    except (Exception, SystemExit) as ex:
        tr['res'] = 'raised'
        tr['exc'] = '%s: %s' % (type(ex).__name__, str(ex)[:120])
    return tr


def run_pipeline(out, tier, prop, rnd):
    """prop: C01 (every line: completes, well-formed) or C02 / C03 / C06 (lines
    made of that property's kinds only: values)."""
    depth = 3
    r = need_ok(run_tlc('Pipeline_MC', workers=1, timeout=900,
                        env={'PNC_MAXOPTS': depth, 'PNC_EMIT': '1'}),
                'Pipeline_MC')
    out.add_tlc('Pipeline_MC: order laws of the command line pipeline on '
                'every line of <= %d options' % depth, r)
    if r.violated:
        out.model_violation(r, 'Pipeline_MC')
    lines = unique([p['line'] for p in r.prints
                    if isinstance(p, dict) and 'line' in p])
    if not lines:
        raise Machinery('Pipeline_MC emitted nothing')
    if prop in KINDS_OF:
        lines = [ln for ln in lines
                 if all(o['k'] in KINDS_OF[prop] for o in ln)]
    n = 200 if tier == 'quick' else 2500
    if len(lines) > n:
        lines = rnd.sample(lines, n)
    args = [(800000 + i, rnd.choice(sorted(SLOTS)), ln)
            for i, ln in enumerate(lines)]
    res = run_cases(case_line, args, timeout=120, per_child=25, chunksize=5)
    for t in res:
        if '_crash' in t or '_hang' in t:
            raise Machinery('pipeline case failed: %r' % (t,))
    out.cov['pipeline_command_lines'] = len(res)
    out.cov['evaluations'] += len(res)
    out.cov['distinct_nontrivial'] += len(set(
        (t['template'], json.dumps(t['argv'])) for t in res))
    env = {'PNC_E_WF': '1' if prop == 'C01' else '0',
           'PNC_E_VAL': '0' if prop == 'C01' else '1'}
    verdicts = validate_traces('Pipeline_Trace', res, out, shard=max(
        10, (len(res) + 15) // 16), env=env, label='pipeline', timeout=1500)
    settle(out, res, verdicts, None)
    return res
