"""Programs over IOAPI-convention files (C10, C11): templates, metadata
projection, generator, executor.  Traces are validated by
spec/Ioapi_Trace.tla."""
import json
import os
import random
import shutil

import numpy as np

from common import (Machinery, run_cases, scratch, validate_traces, settle,
                    seed)
from project import project
import core_driver as cd
import pool as poolmod

UTCATTRS = ('XORIG', 'YORIG', 'XCELL', 'YCELL')


def _int_exact(v, scale=1):
    try:
        x = float(v) * scale
    except Exception:
        return 0, False
    r = round(x)
    if abs(x - r) > 1e-3 or abs(r) > 2 ** 31 - 1:
        return 0, False
    return int(r), True


def meta_of(f):
    ok = True
    m = {}

    def geti(name, key, scale=1):
        nonlocal ok
        if not hasattr(f, name):
            m[key] = -1
            ok = False
            return
        m[key], e = _int_exact(getattr(f, name), scale)
        ok = ok and e
    for name, key in (('NVARS', 'nvars'), ('NLAYS', 'nlays'),
                      ('NROWS', 'nrows'), ('NCOLS', 'ncols'),
                      ('SDATE', 'sdate'), ('STIME', 'stime'),
                      ('TSTEP', 'tstep'), ('XORIG', 'xorig'),
                      ('YORIG', 'yorig'), ('XCELL', 'xcell'),
                      ('YCELL', 'ycell')):
        geti(name, key)
    vl = getattr(f, 'VAR-LIST', None)
    if vl is None:
        ok = False
        vl = ''
    m['rawlen'] = len(vl)
    m['varlist'] = [vl[i:i + 16].rstrip() for i in range(0, len(vl), 16)]
    vg = getattr(f, 'VGLVLS', None)
    m['vglvls'] = []
    m['vglvls_exact'] = False
    if vg is None:
        ok = False
    else:
        m['vglvls_exact'] = True
        for x in np.atleast_1d(vg):
            v, e = _int_exact(x, 1000)
            m['vglvls_exact'] = m['vglvls_exact'] and e
            m['vglvls'].append(v)
    m['tflag_dates'], m['tflag_times'], m['tflag_uniform'] = [], [], True
    if 'TFLAG' in f.variables:
        try:
            tf = np.asarray(f.variables['TFLAG'][...])
            if tf.ndim == 3 and tf.shape[1] >= 1 and tf.shape[2] == 2:
                for x in tf[:, 0, 0]:
                    v, e = _int_exact(x)
                    ok = ok and e
                    m['tflag_dates'].append(v)
                for x in tf[:, 0, 1]:
                    v, e = _int_exact(x)
                    ok = ok and e
                    m['tflag_times'].append(v)
                m['tflag_uniform'] = bool((tf == tf[:, :1, :]).all())
        except Exception:
            ok = False
    m['ok'] = bool(ok)
    # an object of the IOAPI wrapper classes (ioapi_base and its subclasses:
    # ioapi, griddesc, ...)
    from PseudoNetCDF.cmaqfiles._ioapi import ioapi_base as _base
    m['isioapi'] = isinstance(f, _base)
    m['times'] = []
    m['times_ok'] = True
    try:
        for t in f.getTimes():
            m['times'].append([t.year, t.month, t.day, t.hour, t.minute,
                               t.second])
    except Exception:
        m['times_ok'] = False
    return m


def project_obj(f):
    return {'f': project(f, data=False), 'm': meta_of(f)}


# ---------------------------------------------------------------------------
def template(tid, tmp=None):
    from PseudoNetCDF.cmaqfiles import ioapi_base
    if tid in ('I1', 'I3', 'I4'):
        nt, nl, nr, nc = {'I1': (3, 3, 3, 4), 'I3': (2, 1, 2, 2),
                          'I4': (4, 2, 3, 3)}[tid]
        a = np.arange(nt * nl * nr * nc, dtype='f').reshape(nt, nl, nr, nc)
        step = {'I1': 10000, 'I3': 240000, 'I4': 3000}[tid]
        sd, st = {'I1': (2011365, 220000), 'I3': (2000059, 0),
                  'I4': (2004366, 223000)}[tid]
        vg = np.array([1000, 900, 650, 300, 0][:nl + 1], dtype='f') / 1000.
        names = {'I1': ['O3', 'NO2'], 'I3': ['CO'], 'I4': ['O3', 'NO2',
                                                           'ASO4J']}[tid]
        arrs = {n: a + 100 * (i + 1) for i, n in enumerate(names)}
        if tid == 'I4':
            # descriptive attributes (a long_name that is not the padded name)
            f = ioapi_base.from_arrays(
                fileattrs=dict(SDATE=sd, STIME=st, TSTEP=step, XORIG=-108000.,
                               YORIG=-60000., XCELL=12000., YCELL=4000.,
                               VGLVLS=vg, VGTOP=5000., GDNAM='VERIF',
                               FTYPE=1), **arrs)
            f.variables['O3'].long_name = 'Ozone'.ljust(16)
            f.variables['O3'].var_desc = 'ozone mixing ratio'.ljust(80)
            f.variables['NO2'].units = 'ppbV'.ljust(16)
            return f
        return ioapi_base.from_arrays(
            fileattrs=dict(SDATE=sd, STIME=st, TSTEP=step, XORIG=-108000.,
                           YORIG=-60000., XCELL=12000., YCELL=4000.,
                           VGLVLS=vg, VGTOP=5000., GDNAM='VERIF', FTYPE=1),
            **arrs)
    if tid == 'IM':   # the template of the bounded model spec/Ioapi_MC.tla
        a = np.arange(3 * 2 * 2 * 2, dtype='f').reshape(3, 2, 2, 2)
        return ioapi_base.from_arrays(
            O3=a + 100, NO2=a + 200,
            fileattrs=dict(SDATE=2011365, STIME=220000, TSTEP=10000,
                           XORIG=-108., YORIG=-60., XCELL=12., YCELL=4.,
                           VGLVLS=np.array([1, .5, 0], 'f'), VGTOP=5000.,
                           GDNAM='VERIF', FTYPE=1))
    if tid == 'I2':   # boundary
        nt, nl, npm = 2, 2, 10
        b = np.arange(nt * nl * npm, dtype='f').reshape(nt, nl, npm)
        return ioapi_base.from_arrays(
            O3=b + 100, NO2=b + 300,
            fileattrs=dict(SDATE=2011365, STIME=230000, TSTEP=10000, FTYPE=2,
                           NCOLS=3, NROWS=2, NTHIK=1, XORIG=0., YORIG=0.,
                           XCELL=1000., YCELL=1000.,
                           VGLVLS=np.array([1, .75, .25], 'f'), VGTOP=5000.))
    if tid == 'I6':   # built from GRIDDESC text, with the CF variables
        from PseudoNetCDF.cmaqfiles import griddesc
        txt = ("""' '
'LCC'
  2        33.000        45.000       -97.000       -97.000        40.000
' '
'VERIF'
'LCC'   -108000.000    -60000.000     12000.000      4000.000   4   3   1
' '
""")
        f = griddesc(txt, GDNAM='VERIF',
                     VGLVLS=np.array([1, .9, .65, .3], 'f'), SDATE=2011365,
                     STIME=220000, TSTEP=10000, nsteps=3,
                     var_kwds={'O3': {'units': 'ppb'},
                               'NO2': {'units': 'ppb'}})
        a = np.arange(3 * 3 * 3 * 4, dtype='f').reshape(3, 3, 3, 4)
        f.variables['O3'][...] = a + 100
        f.variables['NO2'][...] = a + 200
        return f
    if tid == 'I8':   # built from arrays with the time flags given explicitly
        nt, nl, nr, nc = 3, 2, 2, 3
        a = np.arange(nt * nl * nr * nc, dtype='f').reshape(nt, nl, nr, nc)
        tf = np.zeros((nt, 2, 2), dtype='i')
        tf[:, :, 0] = np.array([2011365, 2012001, 2012001])[:, None]
        tf[:, :, 1] = np.array([223000, 0, 13000])[:, None]
        return ioapi_base.from_arrays(
            TFLAG=tf, O3=a + 100, NO2=a + 200,
            fileattrs=dict(SDATE=2011365, STIME=223000, TSTEP=13000,
                           XORIG=-108000., YORIG=-60000., XCELL=12000.,
                           YCELL=4000., VGLVLS=np.array([1, .9, .65], 'f'),
                           VGTOP=5000., GDNAM='VERIF', FTYPE=1))
    if tid == 'I9':   # built by hand: attributes set and variables created,
        # the time flags not (yet) materialised
        nt, nl, nr, nc = 4, 2, 2, 3
        f = ioapi_base()
        for dk, dl in (('TSTEP', nt), ('DATE-TIME', 2), ('LAY', nl),
                       ('VAR', 2), ('ROW', nr), ('COL', nc)):
            f.createDimension(dk, dl)
        f.dimensions['TSTEP'].setunlimited(True)
        for pk, pv in dict(FTYPE=1, SDATE=2019365, STIME=220000, TSTEP=13000,
                           NTHIK=1, NCOLS=nc, NROWS=nr, NLAYS=nl, NVARS=2,
                           GDTYP=2, P_ALP=33., P_BET=45., P_GAM=-97.,
                           XCENT=-97., YCENT=40., XORIG=-108000.,
                           YORIG=-60000., XCELL=12000., YCELL=4000., VGTYP=7,
                           VGTOP=5000., VGLVLS=np.array([1, .9, .65], 'f'),
                           GDNAM='VERIF'.ljust(16),
                           UPNAM='VERIF'.ljust(16)).items():
            setattr(f, pk, pv)
        a = np.arange(nt * nl * nr * nc, dtype='f').reshape(nt, nl, nr, nc)
        for i, vk in enumerate(('O3', 'NO2')):
            v = f.createVariable(vk, 'f', ('TSTEP', 'LAY', 'ROW', 'COL'),
                                 units='ppbV')
            v[:] = a + 100 * (i + 1)
        return f
    if tid == 'I7':   # read from disk: irregular time axis (gaps over the
        # year end), and an unlisted auxiliary profile PRES(TSTEP, LAY)
        from PseudoNetCDF.cmaqfiles import ioapi
        p = os.path.join(tmp, 'i7_%d.nc' % os.getpid())
        if not os.path.exists(p):
            poolmod.write_ioapi_nc(p, base=300, nt=5, nl=2, nr=2, nc=2,
                                   gaps=[0, 1, 3, 4, 8], profile=True)
        return ioapi(p)
    if tid == 'I5':   # read from disk
        from PseudoNetCDF.cmaqfiles import ioapi
        p = os.path.join(tmp, 'i5_%d.nc' % os.getpid())
        if not os.path.exists(p):
            poolmod.write_ioapi_nc(p, base=200, nt=3, nl=2, nr=2, nc=3)
        f = ioapi(p)
        return f
    raise ValueError(tid)


TEMPLATES = ['I1', 'I2', 'I3', 'I4', 'I5', 'I6', 'I7', 'I8', 'I9']


def call(objs, st, tmp):
    act, a = st['act'], st.get('args', {})
    f = objs[st['src'] - 1]
    if act == 'delvar':
        # an explicit in-place edit of the receiver (its VAR-LIST goes stale)
        del f.variables[a['name']]
        return None
    if act == 'addvar':
        # an explicit in-place edit through the wrapper's own createVariable:
        # NVARS / VAR-LIST follow, the time flags keep their old width until
        # the next operation
        dims = [d for d in ('TSTEP', 'LAY', 'ROW', 'COL') if d in f.dimensions]
        if len(dims) != 4:
            dims = [d for d in ('TSTEP', 'LAY', 'PERIM') if d in f.dimensions]
        v = f.createVariable(a['name'], 'f', tuple(dims), units='ppmV')
        v[...] = 7
        return None
    if act == 'copy' and a.get('nodata'):
        # a template of the file: structure and metadata without the values
        return f.copy(data=False)
    if act == 'interpsigma':
        if a.get('vgtop'):      # relative to another model top
            return f.interpSigma(np.array(a['vglvls'], dtype='f') / 1000.,
                                 vgtop=float(a['vgtop']),
                                 interptype=a['kind'])
        return f.interpSigma(np.array(a['vglvls'], dtype='f') / 1000.,
                             interptype=a['kind'])
    return cd.call(objs, st, tmp)


class _Std(object):
    """View of a shadow restricted to the standard data dimensions."""

    def __init__(self, sh):
        self.dims = {k: v for k, v in sh.dims.items()
                     if k in ('TSTEP', 'LAY', 'ROW', 'COL', 'PERIM')}
        self.vars = {k: v for k, v in sh.vars.items()
                     if k != 'TFLAG' and all(d in self.dims for d in v)}
        self.coords = sh.coords
        self.dt = sh.dt
        self.masked = sh.masked


def gen_step(rnd, sh, src, shadows):
    try:
        return _gen_step(rnd, sh, src, shadows)
    except (IndexError, ValueError, KeyError):
        return {'act': 'copy', 'src': src, 'others': [], 'args': {}}


def _gen_step(rnd, sh, src, shadows):
    # the operations C10 quantifies over, on the standard dimensions only
    # (VAR and DATE-TIME belong to the metadata, not to the data)
    sh = _Std(sh)
    shadows = [_Std(x) for x in shadows]
    dims = list(sh.dims)
    acts = ['copy', 'slice', 'slice', 'window', 'window', 'subset',
            'renamevar', 'apply', 'eval', 'mask', 'stack', 'interpsigma']
    act = rnd.choice(acts)
    if act == 'interpsigma' and 'LAY' not in sh.dims:
        act = 'copy'
    if act == 'window':
        st = {'act': 'slice', 'src': src, 'others': [], 'args': {}}
        wd = [d for d in ('ROW', 'COL', 'LAY', 'TSTEP') if d in sh.dims]
        ds = rnd.sample(wd, rnd.randint(1, min(3, len(wd))))
        sels = []
        for d in ds:
            n = sh.dims[d]
            if rnd.random() < 0.35 and n > 0:
                s = {'k': 'int', 'v': rnd.randint(-n, n - 1)}
            else:
                lo = rnd.randint(-n, n - 1) if n > 0 else 0
                hi = rnd.randint(-n, n + 1)
                h = [rnd.random() < 0.7, rnd.random() < 0.7,
                     rnd.random() < 0.3]
                s = {'k': 'slice', 'h': h,
                     'v': [lo if h[0] else 0, hi if h[1] else 0,
                           1 if h[2] else 0]}
            sels.append({'d': d, 's': s})
        st['args'] = {'sels': sels, 'newdim': 'POINTS'}
        if rnd.random() < 0.3:      # the short method name f.slice(...)
            st['args']['alias'] = True
        return st
    if act == 'interpsigma':
        k = rnd.randint(1, 3)
        edges = sorted(rnd.sample([900, 800, 650, 500, 300, 100], k - 1) +
                       [1000, 0], reverse=True) if k > 1 else [1000, 0]
        return {'act': 'interpsigma', 'src': src, 'others': [],
                'args': {'vglvls': edges,
                         'kind': rnd.choice(['linear', 'conserve']),
                         'vgtop': rnd.choice([0, 0, 10000, 2500])}}
    if act == 'copy' and rnd.random() < 0.5:
        return {'act': 'copy', 'src': src, 'others': [],
                'args': {'nodata': True}}
    st = cd.gen_step(rnd, sh, src, shadows, focus=act, strict=True)
    # the generic string forms / module-level helpers know nothing of IOAPI
    # metadata (C10/C11 are about the ioapi_base wrappers)
    st.get('args', {}).pop('via', None)
    if st['act'] == 'apply':
        # IOAPI: reducers over the standard dimensions
        for fn in st['args']['funcs']:
            if fn['kind'] == 'callable':
                fn['f'] = rnd.choice(['rev', 'sub2', 'first', 'diff'])
    return st


def gen_program(rnd, depth, tmp):
    import warnings
    warnings.simplefilter('ignore')
    t = rnd.choice(TEMPLATES)
    tps = [t, t]
    objs = [template(x, tmp) for x in tps]
    steps = []
    for n in range(depth):
        shadows = [cd.Shadow(o) for o in objs]
        src = rnd.randint(1, len(objs))
        st = gen_step(rnd, shadows[src - 1], src, shadows)
        st['_n'] = n
        try:
            with np.errstate(all='ignore'):
                new = call(objs, st, tmp)
            if new is not None:
                objs.append(new)
        except Exception:
            pass
        steps.append({k: v for k, v in st.items() if k != '_n'})
    return {'templates': tps, 'steps': steps}


def tstep_stacks(rnd, tier):
    """C10: pieces of the time axis stacked in every order (the start
    date/time must be the FIRST record's, whichever piece comes first), also
    along LAY."""
    def sl(a, b):
        return {'k': 'slice', 'h': [a is not None, b is not None, False],
                'v': [a or 0, b or 0, 0]}
    progs = []
    nts = {'I1': 3, 'I4': 4, 'I6': 3, 'I2': 2, 'I5': 3}
    for t in sorted(nts):
        n = nts[t]
        for k in range(1, n):
            steps = [{'act': 'slice', 'src': 1, 'others': [], 'args': {
                'sels': [{'d': 'TSTEP', 's': sl(None, k)}],
                'newdim': 'POINTS'}},
                {'act': 'slice', 'src': 1, 'others': [], 'args': {
                    'sels': [{'d': 'TSTEP', 's': sl(k, None)}],
                    'newdim': 'POINTS'}}]
            for src, others in ((3, [4]), (4, [3]), (4, [3, 4]), (3, [3])):
                steps.append({'act': 'stack', 'src': src, 'others': others,
                              'args': {'dim': 'TSTEP',
                                       'aslist': len(others) > 1}})
            # a copy of the out-of-order stack rebuilds TFLAG from the header
            steps.append({'act': 'copy', 'src': 6, 'others': [], 'args': {}})
            progs.append({'templates': [t, t], 'steps': steps})
    return progs


def tstep_windows():
    """Time windows with a non-zero first index, of the file itself and of its
    value-less template copy(data=False) (C11, C10, C02, C01)."""
    def sl(a, b, c):
        return {'k': 'slice', 'h': [a is not None, b is not None,
                                    c is not None],
                'v': [x if x is not None else 0 for x in (a, b, c)]}
    nts = {'I1': 3, 'I4': 4, 'I6': 3, 'I7': 5, 'I5': 3, 'I8': 3, 'I9': 4}
    progs = []
    for t in sorted(nts):
        n = nts[t]
        for lo, hi in ((1, n), (1, 2), (n - 1, n)):
            w = {'act': 'slice', 'src': 1, 'others': [], 'args': {
                'sels': [{'d': 'TSTEP', 's': sl(lo, hi, None)}],
                'newdim': 'POINTS'}}
            w3 = dict(w, src=3)
            progs.append({'templates': [t, t], 'steps': [
                w, {'act': 'copy', 'src': 1, 'others': [],
                    'args': {'nodata': True}}, w3,
                {'act': 'copy', 'src': 3, 'others': [], 'args': {}}][
                    :1 if (lo, hi) != (1, n) else 4]})
    # a variable added through the wrapper's createVariable (TFLAG lags
    # behind NVARS), then operations without an updatemeta() in between
    for t in ('I1', 'I4', 'I2', 'I8'):
        n = nts.get(t, 2)
        add = {'act': 'addvar', 'src': 1, 'others': [],
               'args': {'name': 'ADDED'}}
        w = {'act': 'slice', 'src': 1, 'others': [], 'args': {
            'sels': [{'d': 'TSTEP', 's': sl(1, n, None)}],
            'newdim': 'POINTS'}}
        progs.append({'templates': [t, t], 'steps': [
            add, w, {'act': 'copy', 'src': 1, 'others': [], 'args': {}},
            {'act': 'subset', 'src': 1, 'others': [],
             'args': {'keys': ['ADDED'], 'exclude': False}},
            {'act': 'slice', 'src': 1, 'others': [], 'args': {
                'sels': [{'d': 'TSTEP', 's': {'k': 'int', 'v': -1}}],
                'newdim': 'POINTS'}}]})
    return progs


def tstep_selections(rnd, tier):
    """C02 on IOAPI files: selections of the time axis that are no increasing
    arithmetic progression (uneven, repeated, unordered, negative indices,
    reversed): TFLAG must be the selected hyperslab of the source's TFLAG."""
    def sl(a, b, c):
        return {'k': 'slice', 'h': [a is not None, b is not None,
                                    c is not None],
                'v': [x if x is not None else 0 for x in (a, b, c)]}
    nts = {'I1': 3, 'I4': 4, 'I6': 3, 'I7': 5, 'I5': 3, 'I8': 3, 'I9': 4}
    progs = tstep_windows()
    for t in sorted(nts):
        n = nts[t]
        sels = [{'k': 'list', 'v': [0, n - 1]}, {'k': 'list', 'v': [1, 1, 0]},
                {'k': 'list', 'v': [n - 1, 0]}, {'k': 'list', 'v': [-1, 0, 1]},
                sl(None, None, -1), sl(None, None, 2), sl(1, None, None),
                {'k': 'int', 'v': -1}]
        for s_ in sels:
            args = {'sels': [{'d': 'TSTEP', 's': s_}], 'newdim': 'POINTS'}
            if rnd.random() < 0.3:
                args['alias'] = True
            progs.append({'templates': [t, t], 'steps': [{
                'act': 'slice', 'src': 1, 'others': [], 'args': args}]})
    return progs


def run_ioapi_isolation(out, tier):
    """C05 on IOAPI files: the wrappers update the metadata of the RESULT;
    receivers - also ones whose variable list went stale after an in-place
    edit - stay as they are."""
    rnd = random.Random(seed() * 7919 + 55)
    tmp = scratch('iogen')
    progs = []
    try:
        for i in range(150 if tier == 'quick' else 1500):
            progs.append(gen_program(rnd, rnd.choice([1, 2, 3]), tmp))
    finally:
        shutil.rmtree(tmp, ignore_errors=True)
    names = {'I1': ['O3', 'NO2'], 'I4': ['O3', 'NO2', 'ASO4J'],
             'I5': ['O3', 'NO2'], 'I6': ['O3', 'NO2'], 'I7': ['O3', 'NO2']}
    for t in sorted(names):
        for nm in names[t]:
            keep = [k for k in names[t] if k != nm]
            for st in (
                {'act': 'subset', 'src': 1, 'others': [],
                 'args': {'keys': keep[:1], 'exclude': False}},
                {'act': 'copy', 'src': 1, 'others': [], 'args': {}},
                {'act': 'slice', 'src': 1, 'others': [], 'args': {
                    'sels': [{'d': 'TSTEP', 's': {'k': 'int', 'v': 0}}],
                    'newdim': 'POINTS'}},
                {'act': 'mask', 'src': 1, 'others': [], 'args': {
                    'p': [{'k': 'greater', 'v': 250}],
                    'where': {'h': False, 'shape': [], 'bits': []},
                    'usedims': {'h': False, 'v': []}, 'coords': False}}):
                progs.append({'templates': [t, t], 'steps': [
                    {'act': 'delvar', 'src': 1, 'others': [],
                     'args': {'name': nm}}, st]})
    # attribute arrays (VGLVLS) are shared between a file and its copies: an
    # operation must not rewrite them in place
    for t in ('I1', 'I4', 'I6'):
        for top in (10000, 2500):
            isig = {'act': 'interpsigma', 'src': 3, 'others': [], 'args': {
                'vglvls': [1000, 650, 0], 'kind': 'linear', 'vgtop': top}}
            progs.append({'templates': [t, t], 'steps': [
                {'act': 'copy', 'src': 1, 'others': [], 'args': {}}, isig,
                dict(isig)]})
    args = [(950000 + i, p) for i, p in enumerate(progs)]
    res = run_cases(execute, args, timeout=120, per_child=1)
    for a, t in zip(args, res):
        if '_crash' in t or '_hang' in t:
            raise Machinery('IOAPI program failed: %r\n%r' % (a[1], t))
    out.cov['evaluations'] += sum(len(t['steps']) for t in res)
    out.cov['ioapi_isolation_programs'] = len(res)
    verdicts = validate_traces('Ioapi_Trace', res, out, shard=250,
                               env={'PNC_E_C10': '0', 'PNC_E_C11': '0',
                                    'PNC_E_C02': '0', 'PNC_E_ISO': '1'},
                               label='C05-ioapi', timeout=1500)
    settle(out, res, verdicts, None)


def run_ioapi_slices(out, tier):
    """C02 part on IOAPI files (TFLAG is data too)."""
    rnd = random.Random(seed() * 7919 + 2)
    progs = tstep_selections(rnd, tier)
    args = [(900000 + i, p) for i, p in enumerate(progs)]
    res = run_cases(execute, args, timeout=120, per_child=1)
    for a, t in zip(args, res):
        if '_crash' in t or '_hang' in t:
            raise Machinery('IOAPI program failed: %r\n%r' % (a[1], t))
    out.cov['evaluations'] += sum(len(t['steps']) for t in res)
    out.cov['ioapi_time_selections'] = len(res)
    verdicts = validate_traces('Ioapi_Trace', res, out, shard=250,
                               env={'PNC_E_C10': '0', 'PNC_E_C11': '0',
                                    'PNC_E_C02': '1', 'PNC_E_ISO': '0'},
                               label='C02-ioapi', timeout=1500)
    settle(out, res, verdicts, None)


def execute(arg):
    tid, prog = arg
    import warnings
    warnings.simplefilter('ignore')
    tmp = scratch('ioq')
    try:
        objs = [template(t, tmp) for t in prog['templates']]
        last = [json.dumps(project_obj(o), sort_keys=True) for o in objs]
        trace = {'tid': tid, 'templates': prog['templates'],
                 'init': [json.loads(x) for x in last], 'steps': []}
        for n, st in enumerate(prog['steps']):
            st = dict(st)
            st['_n'] = n
            rec = {'act': st['act'], 'src': st['src'],
                   'others': st.get('others', []), 'args': st.get('args', {}),
                   'res': 'ok', 'exc': '', 'new': 0}
            try:
                if st['src'] > len(objs) or any(o > len(objs) for o in
                                                st.get('others', [])):
                    raise LookupError('an earlier step did not return the '
                                      'object this step works on')
                with np.errstate(all='ignore'):
                    new = call(objs, st, tmp)
                if new is not None:
                    objs.append(new)
                    last.append(None)
                    rec['new'] = len(objs)
            except Exception as ex:
                rec['res'] = 'raised'
                rec['exc'] = '%s: %s' % (type(ex).__name__, str(ex)[:120])
            post = []
            for i, o in enumerate(objs):
                js = json.dumps(project_obj(o), sort_keys=True)
                if js == last[i]:
                    post.append({'same': True})
                else:
                    post.append(json.loads(js))
                    last[i] = js
            rec['post'] = post
            trace['steps'].append(rec)
        return trace
    finally:
        shutil.rmtree(tmp, ignore_errors=True)


def mc_programs(out, tier, prop):
    """Model-check the bounded wrapper model (coherence, window rule), show
    that dropping any wrapper's metadata rule is detected, and return the
    emitted programs."""
    from common import run_tlc, need_ok, unique
    depth = 2 if tier == 'quick' else 3
    r = need_ok(run_tlc('Ioapi_MC', workers=1, timeout=3000,
                        env={'PNC_DEPTH': depth, 'PNC_EMIT': '1',
                             'PNC_SKIP': ''}), 'Ioapi_MC')
    out.add_tlc('Ioapi_MC depth %d: Inv_Coherent, Inv_WellFormed, '
                'WindowKeeps + emission' % depth, r)
    if r.violated:
        out.model_violation(r, 'Ioapi_MC')
    for skip in ('subset', 'renamevar', 'slice', 'apply', 'stack',
                 'interpsigma'):
        r2 = need_ok(run_tlc('Ioapi_MC', workers=4, timeout=600,
                             env={'PNC_DEPTH': 2, 'PNC_EMIT': '0',
                                  'PNC_SKIP': skip}), 'Ioapi_MC skip')
        out.add_tlc('Ioapi_MC with the metadata rule of %s dropped '
                    '(sharpness)' % skip, r2, 'must violate: %s' % r2.violated)
        if not r2.violated:
            raise Machinery('Ioapi_MC is not sharp for %s' % skip)
    progs = unique([p for p in r.prints if isinstance(p, dict)
                    and 'steps' in p])
    if not progs:
        raise Machinery('Ioapi_MC emitted nothing')
    return [{'templates': [p['template']], 'steps': p['steps']}
            for p in progs]


def run_ioapi(out, tier, prop):
    rnd = random.Random(seed() * 7919 + int(prop[1:]))
    n = 500 if tier == 'quick' else 5000
    tmp = scratch('iogen')
    try:
        progs = []
        for i in range(n):
            depth = rnd.choice([1, 2, 2, 3]) if prop == 'C10' else \
                rnd.choice([1, 1, 2])
            progs.append(gen_program(rnd, depth, tmp))
    finally:
        shutil.rmtree(tmp, ignore_errors=True)
    if prop == 'C10':
        progs += tstep_stacks(rnd, tier)
    progs += tstep_windows()
    mcp = mc_programs(out, tier, prop)
    out.cov['programs_emitted_by_tlc'] = len(mcp)
    if tier == 'quick' and len(mcp) > 700:
        mcp = rnd.sample(mcp, 700)
    elif len(mcp) > 12000:
        # thorough: the model is checked on all of them; a seeded sample is
        # replayed (one process per program)
        mcp = rnd.sample(mcp, 12000)
    progs = mcp + progs
    args = [(i + 1, p) for i, p in enumerate(progs)]
    res = run_cases(execute, args, timeout=120, per_child=1)
    traces = []
    for a, t in zip(args, res):
        if '_crash' in t or '_hang' in t:
            raise Machinery('IOAPI program failed: %r\n%r' % (a[1], t))
        traces.append(t)
    out.cov['evaluations'] += sum(len(t['steps']) for t in traces)
    keys = set()
    nwin = 0
    for t in traces:
        if any(s['res'] == 'ok' and s['new'] for s in t['steps']):
            keys.add(cd.nontrivial_key(t))
        nwin += sum(1 for s in t['steps'] if s['act'] == 'slice' and
                    s['res'] == 'ok')
    out.cov['distinct_nontrivial'] += len(keys)
    out.cov['slice_steps'] = nwin
    for t in traces[:3]:
        out.sample({'templates': t['templates'],
                    'program': [{'act': s['act'], 'src': s['src'],
                                 'others': s['others'], 'args': s['args'],
                                 'res': s['res']} for s in t['steps']]})
    env = {'PNC_E_C10': '1' if prop == 'C10' else '0',
           'PNC_E_C11': '1' if prop == 'C11' else '0', 'PNC_E_C02': '0',
           'PNC_E_ISO': '0'}
    verdicts = validate_traces('Ioapi_Trace', traces, out, shard=250,
                               env=env, label=prop, timeout=1500)
    settle(out, traces, verdicts, None)
    return traces


def run_ioapi_wellformed(out, tier):
    """C01 on IOAPI files: constructors (arrays with and without explicit time
    flags, GRIDDESC text, by hand), readers and every operation give a
    well-formed file whose time-step dimension is unlimited."""
    rnd = random.Random(seed() * 7919 + 101)
    tmp = scratch('iogen')
    try:
        progs = [gen_program(rnd, rnd.choice([1, 2, 3]), tmp)
                 for i in range(150 if tier == 'quick' else 2000)]
    finally:
        shutil.rmtree(tmp, ignore_errors=True)
    progs += tstep_windows()
    for t in TEMPLATES:
        progs.append({'templates': [t, t], 'steps': [
            {'act': 'copy', 'src': 1, 'others': [], 'args': {}},
            {'act': 'copy', 'src': 3, 'others': [], 'args': {'nodata': True}}
        ]})
    args = [(970000 + i, p) for i, p in enumerate(progs)]
    res = run_cases(execute, args, timeout=120, per_child=1)
    for a, t in zip(args, res):
        if '_crash' in t or '_hang' in t:
            raise Machinery('IOAPI program failed: %r\n%r' % (a[1], t))
    out.cov['evaluations'] += sum(len(t['steps']) for t in res)
    out.cov['ioapi_wellformed_programs'] = len(res)
    verdicts = validate_traces('Ioapi_Trace', res, out, shard=250,
                               env={'PNC_E_C10': '0', 'PNC_E_C11': '0',
                                    'PNC_E_C02': '0', 'PNC_E_ISO': '0'},
                               label='C01io', timeout=1500)
    settle(out, res, verdicts, None)
