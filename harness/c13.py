"""C13: see camxcheck.py / camx.py and spec/CamxLayout*.tla, Camx_Trace.tla."""
import sys
from common import main_wrap
import camxcheck

if __name__ == '__main__':
    tier = sys.argv[sys.argv.index('--tier') + 1] if '--tier' in sys.argv else 'quick'
    main_wrap(lambda: camxcheck.run('C13', tier))
