"""CAMx binary formats (C08, C09, C13, C14): reference encoder / decoder driven
by the layout that TLC emits from spec/CamxLayout.tla, library writers and both
reader families, truncation scans.  Validation: spec/Camx_Trace.tla."""
import os
import random
import shutil
import struct
import sys

import numpy as np

from common import (unique, Machinery, run_tlc, need_ok, run_cases, scratch,
                    validate_traces, settle, seed)


# ---------------------------------------------------------------------------
# typed-field serialiser (knows field types, not formats) and record walker
# ---------------------------------------------------------------------------
def serialise(recs, cfg=None):
    out = []
    for rec in recs:
        payload = b''
        for fld in rec:
            if fld['t'] == 'g':
                # compact data slab: ny * nx floats by the token rule
                ny, nx = cfg['ny'], cfg['nx']
                j = np.arange(1, ny + 1)[:, None]
                i = np.arange(1, nx + 1)[None, :]
                tok = ((((fld['s'] * 5 + fld['tt']) * 5 + fld['k']) * 5 + j)
                       * 5 + i)
                payload += tok.astype('>f4').tobytes()
            elif fld['t'] == 'i':
                payload += struct.pack('>i', int(fld['v']))
            elif fld['t'] == 'f':
                payload += struct.pack('>f', float(fld['v']))
            elif fld['t'] == 'c':
                payload += fld['v'].encode('latin1')[:1].ljust(1) + b'   '
            elif fld['t'] == 's':       # four raw characters
                payload += fld['v'].encode('latin1')[:4].ljust(4)
            else:
                raise ValueError(fld)
        out.append(struct.pack('>i', len(payload)) + payload +
                   struct.pack('>i', len(payload)))
    return b''.join(out)


def word(w):
    i = struct.unpack('>i', w)[0]
    f = struct.unpack('>f', w)[0]
    fok = (f == f) and abs(f) < 2e9 and f == int(f)
    cok = w[1:] == b'   ' and 32 <= w[0] < 127
    sok = all(32 <= b < 127 for b in w)
    return {'i': i, 'f': int(f) if fok else 0, 'fok': bool(fok),
            'c': chr(w[0]) if cok else '', 'cok': bool(cok),
            's': w.decode('latin1') if sok else ''}


def walk(data, maxrec=100000):
    """Length markers only: returns records and the number of bytes that do
    not belong to a complete record."""
    recs = []
    pos = 0
    n = len(data)
    while pos + 4 <= n and len(recs) < maxrec:
        lead = struct.unpack('>i', data[pos:pos + 4])[0]
        if lead < 0 or lead % 4 or pos + 8 + lead > n:
            break
        payload = data[pos + 4:pos + 4 + lead]
        trail = struct.unpack('>i', data[pos + 4 + lead:pos + 8 + lead])[0]
        recs.append({'lead': lead, 'trail': trail,
                     'words': [word(payload[k:k + 4])
                               for k in range(0, lead, 4)]})
        pos += 8 + lead
    return recs, n - pos


# ---------------------------------------------------------------------------
# projections of what a reader presents
# ---------------------------------------------------------------------------
def present(f, spcnames):
    out = {'dims': {}, 'names': [], 'data': [], 'dataok': True,
           'tflag': [], 'etflag': []}
    for k in ('TSTEP', 'LAY', 'ROW', 'COL', 'VAR'):
        out['dims'][k] = int(len(f.dimensions[k])) if k in f.dimensions \
            else -1
    names = [k for k in f.variables.keys() if k not in ('TFLAG', 'ETFLAG')]
    # (order: the requested names first, then whatever else the reader has)
    names = [k for k in spcnames if k in names] + \
        [k for k in names if k not in spcnames]
    out['names'] = [str(k) for k in names]
    # every variable is loaded once before any is looked at: what a variable
    # holds must not depend on which other variables were loaded after it
    for k in spcnames:
        if k in f.variables:
            f.variables[k][...]
    for k in spcnames:
        if k not in f.variables:
            out['data'].append([])
            out['dataok'] = False
            continue
        a = np.asarray(f.variables[k][...], dtype='d').ravel()
        if not (a == np.round(a)).all() or (np.abs(a) > 2e9).any():
            out['dataok'] = False
            out['data'].append([])
        else:
            out['data'].append([int(x) for x in a])
    # grid header as the reader presents it (self-describing formats)
    out['hdr'] = {}
    for k, a in (('xorg', 'XORIG'), ('yorg', 'YORIG'), ('delx', 'XCELL'),
                 ('dely', 'YCELL'), ('plon', 'PLON'), ('plat', 'PLAT'),
                 ('tlat1', 'TLAT1'), ('tlat2', 'TLAT2'), ('iutm', 'IUTM'),
                 ('istag', 'ISTAG'), ('iproj', 'CPROJ'), ('itzon', 'ITZON')):
        try:
            x = float(np.asarray(getattr(f, a)).ravel()[0])
            out['hdr'][k] = int(x) if x == int(x) and abs(x) < 2e9 \
                else -99998
        except Exception:
            out['hdr'][k] = -99999
    for key in ('TFLAG', 'ETFLAG'):
        if key in f.variables:
            tf = np.asarray(f.variables[key][...])
            out[key.lower()] = [[int(tf[t, 0, 0]), int(tf[t, 0, 1])]
                                for t in range(tf.shape[0])]
    return out


MET = {
    'one3d': ('PseudoNetCDF.camxfiles.one3d', ['UNKNOWN']),
    'humidity': ('PseudoNetCDF.camxfiles.humidity', ['HUM']),
    'vertical_diffusivity': ('PseudoNetCDF.camxfiles.vertical_diffusivity',
                             ['KV']),
    'temperature': ('PseudoNetCDF.camxfiles.temperature',
                    ['SURFTEMP', 'AIRTEMP']),
    'height_pressure': ('PseudoNetCDF.camxfiles.height_pressure',
                        ['HGHT', 'PRES']),
    'wind': ('PseudoNetCDF.camxfiles.wind', ['U', 'V']),
}


class _LanduseView(object):
    """Presents a land-use file in the terms of the gridded content check:
    the category axis as LAY, one (implicit) time step."""
    def __init__(self, f):
        self._f = f
        self.variables = {}
        n = {k: len(f.dimensions[k]) for k in ('LANDUSE', 'ROW', 'COL')}
        self.dimensions = {'TSTEP': [0], 'LAY': [0] * n['LANDUSE'],
                           'ROW': [0] * n['ROW'], 'COL': [0] * n['COL']}
        for k, v in f.variables.items():
            a = np.asarray(v[...])
            self.variables[k] = a[None, ...]      # the time axis


def luname(cfg):
    main = ('LUCAT26' if cfg['nz'] == 26 else 'LUCAT11') \
        if cfg['newstyle'] else 'FLAND'
    opt = {0: [], 1: ['TOPO'], 2: ['LAI', 'TOPO']}[cfg['nopt']]
    return [main] + opt


def readers(fmt):
    """name -> callable(path, cfg) opening the file with that reader."""
    import importlib
    if fmt == 'uamiv':
        from PseudoNetCDF.camxfiles.uamiv.Memmap import uamiv as mm
        from PseudoNetCDF.camxfiles.uamiv.Read import uamiv as rd
        return {'memmap': lambda p, c, **kw: mm(p, **kw),
                'read': lambda p, c, **kw: rd(p, **kw)}
    if fmt == 'cloud_rain':
        from PseudoNetCDF.camxfiles.cloud_rain.Memmap import cloud_rain as cr
        return {'memmap': lambda p, c, **kw: cr(p, rows=c['ny'],
                                                cols=c['nx'])}
    if fmt == 'landuse':
        from PseudoNetCDF.camxfiles.landuse.Memmap import landuse as lu
        return {'memmap': lambda p, c, **kw: _LanduseView(
            lu(p, c['ny'], c['nx']))}
    if fmt == 'lateral_boundary':
        from PseudoNetCDF.camxfiles.lateral_boundary.Memmap import \
            lateral_boundary as lb
        return {'memmap': lambda p, c, **kw: lb(p, **kw)}
    base, _ = MET[fmt]
    mm = getattr(importlib.import_module(base + '.Memmap'), fmt)
    rd = getattr(importlib.import_module(base + '.Read'), fmt)
    return {'memmap': lambda p, c, **kw: mm(p, rows=c['ny'], cols=c['nx']),
            'read': lambda p, c, **kw: rd(p, rows=c['ny'], cols=c['nx'])}


def spcnames(cfg):
    if cfg['fmt'] in MET:
        return list(MET[cfg['fmt']][1])
    if cfg['fmt'] == 'cloud_rain':
        return ['CLOUD', 'RAIN', 'SNOW', 'GRAUPEL', 'COD'] if cfg['nv'] == 5 \
            else ['CLOUD', 'PRECIP', 'COD']
    if cfg['fmt'] == 'landuse':
        return luname(cfg)
    if cfg['fmt'] == 'lateral_boundary':
        return ['%s_%s' % (e, ''.join(x).strip()) for x in cfg['spc']
                for e in ('WEST', 'EAST', 'SOUTH', 'NORTH')]
    return [''.join(x).strip() for x in cfg['spc']]


def build_met_file(cfg):
    import datetime as dtm
    import PseudoNetCDF as pnc
    names = spcnames(cfg)
    nt, nz, ny, nx = cfg['nt'], cfg['nz'], cfg['ny'], cfg['nx']
    f = pnc.PseudoNetCDFFile()
    f.createDimension('TSTEP', nt).setunlimited(True)
    f.createDimension('LAY', nz)
    f.createDimension('ROW', ny)
    f.createDimension('COL', nx)
    f.createDimension('VAR', len(names))
    f.createDimension('DATE-TIME', 2)
    t0 = dtm.datetime(cfg['year'], 1, 1) + dtm.timedelta(
        days=cfg['jjj'] - 1, hours=cfg['hour'])
    tf = f.createVariable('TFLAG', 'i', ('TSTEP', 'VAR', 'DATE-TIME'))
    for t in range(nt):
        b = t0 + dtm.timedelta(hours=t * cfg.get('dth', 1))
        tf[t, :, 0] = int(b.strftime('%Y%j'))
        tf[t, :, 1] = b.hour * 10000
    j = np.arange(1, ny + 1)[:, None]
    i = np.arange(1, nx + 1)[None, :]
    for s, name in enumerate(names):
        surf = (cfg['fmt'] == 'temperature' and name == 'SURFTEMP')
        dims = ('TSTEP', 'ROW', 'COL') if surf else \
            ('TSTEP', 'LAY', 'ROW', 'COL')
        v = f.createVariable(name, 'f', dims)
        for t in range(nt):
            if surf:
                v[t] = ((((s + 1) * 5 + t + 1) * 5 + 0) * 5 + j) * 5 + i
            else:
                for k in range(nz):
                    v[t, k] = ((((s + 1) * 5 + t + 1) * 5 + k + 1) * 5 + j) \
                        * 5 + i
        v.units = 'x'
    f.TSTEP = 10000 * cfg.get('dth', 1)
    if cfg['fmt'] == 'wind':
        f.LSTAGGER = np.array(cfg['lstag'], dtype='>i')
    if cfg['fmt'] == 'cloud_rain':
        f.FILEDESC = 'CAMx CLD'
    return f


def build_landuse_file(cfg):
    import PseudoNetCDF as pnc
    nl, ny, nx = cfg['nz'], cfg['ny'], cfg['nx']
    f = pnc.PseudoNetCDFFile()
    f.createDimension('LANDUSE', nl)
    f.createDimension('ROW', ny)
    f.createDimension('COL', nx)
    j = np.arange(1, ny + 1)[:, None]
    i = np.arange(1, nx + 1)[None, :]
    # the order in which the source's variables were created is not the
    # order of the layout: in the second variant of every configuration
    # (the one written "without ETFLAG" for the gridded formats) the optional
    # records are created first, last one first
    def fland():
        v = f.createVariable('FLAND', 'f', ('LANDUSE', 'ROW', 'COL'))
        for k in range(nl):
            v[k] = (((1 * 5 + 1) * 5 + k + 1) * 5 + j) * 5 + i
    opt = list(enumerate(luname(cfg)[1:]))
    canonical = cfg.get('with_etflag', True)
    if canonical:
        fland()
    for o, name in (opt if canonical else opt[::-1]):
        w = f.createVariable(name, 'f', ('ROW', 'COL'))
        w[...] = ((((o + 2) * 5 + 1) * 5 + 0) * 5 + j) * 5 + i
    if not canonical:
        fland()
    f._newstyle = bool(cfg['newstyle'])
    return f


def build_file(cfg):
    """A CAMx-convention PseudoNetCDFFile holding the content of cfg, built
    from the configuration alone (dates by plain calendar arithmetic)."""
    import datetime as dtm
    import PseudoNetCDF as pnc
    if cfg['fmt'] in MET or cfg['fmt'] == 'cloud_rain':
        return build_met_file(cfg)
    if cfg['fmt'] == 'landuse':
        return build_landuse_file(cfg)
    names = spcnames(cfg)
    nt, nz, ny, nx = cfg['nt'], cfg['nz'], cfg['ny'], cfg['nx']
    f = pnc.PseudoNetCDFFile()
    f.createDimension('TSTEP', nt).setunlimited(True)
    f.createDimension('LAY', nz)
    f.createDimension('ROW', ny)
    f.createDimension('COL', nx)
    f.createDimension('VAR', len(names))
    f.createDimension('DATE-TIME', 2)
    t0 = dtm.datetime(cfg['year'], 1, 1) + dtm.timedelta(
        days=cfg['jjj'] - 1, hours=cfg['hour'])
    tf = f.createVariable('TFLAG', 'i', ('TSTEP', 'VAR', 'DATE-TIME'))
    if cfg.get('with_etflag', True):
        ef = f.createVariable('ETFLAG', 'i', ('TSTEP', 'VAR', 'DATE-TIME'))
    for t in range(nt):
        b = t0 + dtm.timedelta(hours=t)
        e = b + dtm.timedelta(hours=1)
        tf[t, :, 0] = int(b.strftime('%Y%j'))
        tf[t, :, 1] = b.hour * 10000
        if cfg.get('with_etflag', True):
            ef[t, :, 0] = int(e.strftime('%Y%j'))
            ef[t, :, 1] = e.hour * 10000
    for s, name in enumerate(names):
        if cfg['fmt'] == 'lateral_boundary':
            # variable q is edge q % 4 of species q // 4; (step, cell, layer)
            e = s % 4
            nc = ny if e < 2 else nx
            v = f.createVariable(name, 'f', ('TSTEP', 'ROW' if e < 2
                                             else 'COL', 'LAY'))
            for t in range(nt):
                for cell in range(nc):
                    for k in range(nz):
                        v[t, cell, k] = ((((s // 4 + 1) * 5 + t + 1) * 5 +
                                          k + 1) * 5 + cell + 1) * 5 + e + 1
            v.units = 'ppm'
            continue
        v = f.createVariable(name, 'f', ('TSTEP', 'LAY', 'ROW', 'COL'))
        for t in range(nt):
            for k in range(nz):
                for j in range(ny):
                    for i in range(nx):
                        v[t, k, j, i] = ((((s + 1) * 5 + t + 1) * 5 + k + 1)
                                         * 5 + j + 1) * 5 + i + 1
        v.units = 'ppm'
        v.long_name = name.ljust(16)
        v.var_desc = name.ljust(80)
    f.NAME = ''.join(cfg['name']).ljust(10)
    f.NOTE = ''.join(cfg['note']).ljust(60)
    f.ITZON = cfg['itzon']
    f.PLON, f.PLAT, f.IUTM = float(cfg['plon']), float(cfg['plat']), \
        cfg['iutm']
    f.XORIG, f.YORIG = float(cfg['xorg']), float(cfg['yorg'])
    f.XCELL, f.YCELL = float(cfg['delx']), float(cfg['dely'])
    f.CPROJ, f.ISTAG = cfg['iproj'], cfg['istag']
    f.TLAT1, f.TLAT2 = float(cfg['tlat1']), float(cfg['tlat2'])
    f.TSTEP = 10000
    f.SDATE, f.STIME = int(tf[0, 0, 0]), int(tf[0, 0, 1])
    f.NVARS = len(names)
    setattr(f, 'VAR-LIST', ''.join(n.ljust(16) for n in names))
    return f


def _open_present(cls, path, names, cfg):
    f = cls(path, cfg)
    return present(f, names)


# ---------------------------------------------------------------------------
# cases
# ---------------------------------------------------------------------------
def case_encode_read(arg):
    """Direction B: reference encoder -> every library reader."""
    import warnings
    warnings.simplefilter('ignore')
    tid, item = arg[:2]
    cfg = item['cfg']
    names = spcnames(cfg)
    # (arg[2]: a directory that outlives the case - several files are written
    # to ONE path, one after the other, in one process: case_same_path)
    keep = arg[2] if len(arg) > 2 else None
    tmp = keep or scratch('camxB')
    try:
        path = os.path.join(tmp, 'ref.%s' % cfg['fmt'])
        data = serialise(item['recs'], cfg)
        with open(path, 'wb') as fo:
            fo.write(data)
        tr = {'tid': tid, 'kind': 'enc_read', 'cfg': cfg, 'names': names,
              'nbytes': len(data), 'expbytes': item['bytes'], 'reads': []}
        import signal

        class Hang(Exception):
            pass

        def onalarm(sig, frm):
            raise Hang()
        oldh = signal.signal(signal.SIGALRM, onalarm)
        for rname, cls in readers(cfg['fmt']).items():
            r = {'reader': rname, 'res': 'ok', 'exc': ''}
            signal.setitimer(signal.ITIMER_REAL, 10.0)
            try:
                r['got'] = _open_present(cls, path, names, cfg)
            except Hang:
                r['res'] = 'hang'
                r['exc'] = 'did not terminate within 10 s'
                r['got'] = {'dims': {}, 'names': [], 'data': [],
                            'dataok': False, 'tflag': [], 'etflag': [], 'hdr': {}}
            except Exception as ex:
                r['res'] = 'raised'
                r['exc'] = '%s: %s' % (type(ex).__name__, str(ex)[:80])
                r['got'] = {'dims': {}, 'names': [], 'data': [],
                            'dataok': False, 'tflag': [], 'etflag': [], 'hdr': {}}
            finally:
                try:
                    signal.setitimer(signal.ITIMER_REAL, 0)
                except Hang:
                    signal.setitimer(signal.ITIMER_REAL, 0)
            tr['reads'].append(r)
        signal.signal(signal.SIGALRM, oldh)
        tr['autocls'] = ''
        if cfg['fmt'] == 'uamiv':      # the self-describing format
            try:
                import PseudoNetCDF as pnc
                a = pnc.pncopen(path)
                tr['autocls'] = type(a).__name__
            except Exception as ex:
                tr['autocls'] = 'raised:' + type(ex).__name__
        return tr
    finally:
        if keep is None:
            shutil.rmtree(tmp, ignore_errors=True)


def case_same_path(arg):
    """Files of one format and one byte size but different layer / step
    splits, written to the SAME path one after the other and read by every
    reader in one process (what a reader presents depends on the file, not on
    what was at that path before)."""
    tid, items = arg
    tmp = scratch('camxS')
    try:
        return {'tid': tid, 'kind': 'group', 'traces': [
            case_encode_read((tid + k, it, tmp))
            for k, it in enumerate(items)]}
    finally:
        shutil.rmtree(tmp, ignore_errors=True)


def case_write_walk(arg):
    """Direction A + C08: library writer -> reference decoder; read back;
    rewrite must be byte identical."""
    import warnings
    warnings.simplefilter('ignore')
    tid, item = arg
    cfg = item['cfg']
    names = spcnames(cfg)
    tmp = scratch('camxA')
    tr = {'tid': tid, 'kind': 'write_walk', 'cfg': cfg, 'names': names,
          'wres': 'ok', 'wexc': '', 'records': [], 'tail': 0,
          'rres': 'ok', 'rexc': '', 'same_bytes': False, 'records2': [],
          'got': {'dims': {}, 'names': [], 'data': [], 'dataok': False,
                  'tflag': [], 'etflag': []}}
    try:
        from PseudoNetCDF.pncgen import pncgen
        f = build_file(cfg)
        p1 = os.path.join(tmp, 'w1.' + cfg['fmt'])
        try:
            o = pncgen(f, p1, format=cfg['fmt'], verbose=0)
            try:
                o.close()
            except Exception:
                pass
        except Exception as ex:
            tr['wres'] = 'raised'
            tr['wexc'] = '%s: %s' % (type(ex).__name__, str(ex)[:80])
            return tr
        data = open(p1, 'rb').read()
        tr['records'], tr['tail'] = walk(data)
        # the route of the writer's own documentation: the file saved as
        # netCDF, opened as a netCDF dataset, written as uamiv - also when a
        # cell holds the value netCDF uses as its default fill (read back
        # masked): the bytes are those of the direct write
        tr['ncroute'] = 'skipped'
        if cfg['fmt'] == 'uamiv':
            try:
                import netCDF4
                f2 = build_file(cfg)
                for nm in names:
                    v = f2.variables[nm]
                    v[(0,) * v.ndim] = netCDF4.default_fillvals['f4']
                pa = os.path.join(tmp, 'wa.uamiv')
                o = pncgen(f2, pa, format='uamiv', verbose=0)
                pn = os.path.join(tmp, 'wn.nc')
                o = f2.save(pn, format='NETCDF3_CLASSIC', verbose=0)
                o.close()
                ds = netCDF4.Dataset(pn)
                pb = os.path.join(tmp, 'wb.uamiv')
                o = pncgen(ds, pb, format='uamiv', verbose=0)
                tr['ncroute'] = 'same' if open(pa, 'rb').read() == open(
                    pb, 'rb').read() else 'differs'
            except Exception as ex:
                tr['ncroute'] = 'raised %s: %s' % (type(ex).__name__,
                                                   str(ex)[:80])
        try:
            cls = readers(cfg['fmt'])['memmap']
            g = cls(p1, cfg)
            tr['got'] = present(g, names)
            # whatever else the process opens in the meantime (a file of the
            # same format on another grid) must not leak into the rewrite
            try:
                cfg3 = dict(cfg, nx=cfg['nx'] + 1, ny=cfg['ny'] + 2)
                p3 = os.path.join(tmp, 'w3.' + cfg['fmt'])
                o = pncgen(build_file(cfg3), p3, format=cfg['fmt'], verbose=0)
                try:
                    o.close()
                except Exception:
                    pass
                decoy = cls(p3, cfg3)
                present(decoy, names)
                tr['decoy'] = True
            except Exception:
                tr['decoy'] = False
            p2 = os.path.join(tmp, 'w2.' + cfg['fmt'])
            o = pncgen(getattr(g, '_f', g), p2, format=cfg['fmt'], verbose=0)
            try:
                o.close()
            except Exception:
                pass
            data2 = open(p2, 'rb').read()
            tr['same_bytes'] = bool(data2 == data)
            if data2 != data:
                tr['records2'], _ = walk(data2)
        except Exception as ex:
            tr['rres'] = 'raised'
            tr['rexc'] = '%s: %s' % (type(ex).__name__, str(ex)[:80])
        return tr
    finally:
        shutil.rmtree(tmp, ignore_errors=True)


def case_cuts(arg):
    """C14: every requested prefix of the reference-encoded file."""
    import warnings
    warnings.simplefilter('ignore')
    import signal
    tid, item, cuts, rname = arg
    cfg = item['cfg']
    names = spcnames(cfg)
    tmp = scratch('camxC')
    data = serialise(item['recs'])
    # ('memmap+': the memory-mapped reader in update mode - it must not
    # change the file it is asked to read either)
    kw = {'mode': 'r+'} if rname == 'memmap+' else {}
    rcls = readers(cfg['fmt'])[rname.rstrip('+')]

    def cls(p, c):
        return rcls(p, c, **kw)
    rname = rname.rstrip('+')
    obs = []

    class Hang(Exception):
        pass

    def onalarm(sig, frm):
        raise Hang()
    old = signal.signal(signal.SIGALRM, onalarm)
    try:
        for n in cuts:
            path = os.path.join(tmp, 'cut%d' % n)
            with open(path, 'wb') as fo:
                fo.write(data[:n])
            o = {'n': n, 'k': 'Err', 'steps': 0, 'data': [], 'dataok': True,
                 'tflag': [], 'grew': False}
            signal.setitimer(signal.ITIMER_REAL, 15.0)
            g = None

            def expose():
                p = present(g, names)
                o['k'] = 'Steps'
                o['steps'] = p['dims'].get('TSTEP', -1)
                o['data'] = p['data']
                o['dataok'] = p['dataok']
                o['tflag'] = p['tflag']
            try:
                g = cls(path, cfg)
                expose()
            except Hang:
                o['k'] = 'Hang'
            except Exception as ex:
                o['exc'] = type(ex).__name__
                if g is not None:
                    # the file opened and a read was refused: a second attempt
                    # (a tolerant loop over the variables, a re-run notebook
                    # cell) must not be handed what the first one was denied
                    try:
                        expose()
                        o['retry'] = True
                    except Hang:
                        o['k'] = 'Hang'
                    except Exception:
                        pass
            finally:
                try:
                    signal.setitimer(signal.ITIMER_REAL, 0)
                except Hang:
                    signal.setitimer(signal.ITIMER_REAL, 0)
            try:
                del g
            except Exception:
                pass
            o['grew'] = bool(os.path.getsize(path) != n)
            obs.append(o)
            os.remove(path)
        return {'tid': tid, 'kind': 'cuts', 'cfg': cfg, 'names': names,
                'reader': rname, 'nbytes': len(data), 'obs': obs}
    finally:
        signal.signal(signal.SIGALRM, old)
        shutil.rmtree(tmp, ignore_errors=True)


def case_bigcuts(arg):
    """C14 on a file of realistic size: cuts around every step boundary, in
    read-only and update mode; exposed data are sampled at fixed cells."""
    import warnings
    warnings.simplefilter('ignore')
    import signal
    tid, item = arg
    cfg = item['cfg']
    names = spcnames(cfg)
    tmp = scratch('camxBig')
    data = serialise(item['recs'], cfg)
    cls = readers(cfg['fmt'])['memmap']
    H, B, nt = item['header'], item['block'], cfg['nt']
    cuts = sorted(set(H + k * B + d for k in range(1, nt + 1)
                      for d in (-48, -16, -8, -4, 0, 4, 8)
                      if 0 < H + k * B + d <= len(data)))
    obs = []

    class Hang(Exception):
        pass

    def onalarm(sig, frm):
        raise Hang()
    old = signal.signal(signal.SIGALRM, onalarm)
    ny, nx, nz = cfg['ny'], cfg['nx'], cfg['nz']
    cells = [(0, 0), (0, 1), (ny - 1, nx - 2), (ny - 1, nx - 1)]
    try:
        for n in cuts:
            for mode in ('r', 'r+'):
                path = os.path.join(tmp, 'cut')
                with open(path, 'wb') as fo:
                    fo.write(data[:n])
                o = {'n': n, 'mode': mode, 'k': 'Err', 'steps': 0,
                     'samples': []}
                signal.setitimer(signal.ITIMER_REAL, 60.0)
                try:
                    g = cls(path, cfg, mode=mode)
                    o['k'] = 'Steps'
                    o['steps'] = int(len(g.dimensions['TSTEP']))
                    for t in sorted(set([0, o['steps'] - 1])):
                        if t < 0:
                            continue
                        for s_, name in enumerate(names):
                            v = g.variables[name]
                            for k in range(nz):
                                for (j, i) in cells:
                                    x = float(v[t, k, j, i])
                                    ok = x == int(x) and abs(x) < 2e9
                                    o['samples'].append(
                                        [s_ + 1, t + 1, k + 1, j + 1, i + 1,
                                         int(x) if ok else 0, bool(ok)])
                    del g
                except Hang:
                    o['k'] = 'Hang'
                except Exception as ex:
                    o['exc'] = type(ex).__name__
                finally:
                    signal.setitimer(signal.ITIMER_REAL, 0)
                o['size_after'] = os.path.getsize(path)
                obs.append(o)
                os.remove(path)
        return {'tid': tid, 'kind': 'bigcuts', 'cfg': cfg, 'names': names,
                'reader': 'memmap', 'nbytes': len(data),
                'expbytes': item['bytes'], 'obs': obs}
    finally:
        signal.signal(signal.SIGALRM, old)
        shutil.rmtree(tmp, ignore_errors=True)


def emit_layouts(out, tier, label, family='uamiv'):
    """Model-check the layout/crash model and return the emitted items."""
    scale = 'quick' if tier == 'quick' else 'full'
    r = need_ok(run_tlc('CamxLayout_MC', workers=16, timeout=3000, heap='8g',
                        env={'PNC_EMIT': '1', 'PNC_CAMX_SCALE': scale,
                             'PNC_CAMX_FAMILY': family,
                             'PNC_CAMX_DEV': 'none', 'PNC_CAMX_CUTS': '1'}),
                'CamxLayout_MC')
    out.add_tlc('CamxLayout_MC (%s): tiling, reader decision procedure on '
                'every cut offset' % label, r)
    if r.violated:
        out.model_violation(r, 'CamxLayout_MC')
    if family == 'met':
        # sharpness: the legacy step-count rule of the wind reader (running
        # total in mixed units) must violate the model's invariants
        rd = need_ok(run_tlc('CamxLayout_MC', workers=16, timeout=3000,
                             heap='8g',
                             env={'PNC_EMIT': '0', 'PNC_CAMX_SCALE': scale,
                                  'PNC_CAMX_FAMILY': family,
                                  'PNC_CAMX_DEV': 'wind_legacy_count',
                                  'PNC_CAMX_CUTS': '1'}),
                     'CamxLayout_MC wind_legacy_count')
        out.add_tlc('CamxLayout_MC sharpness: the legacy wind step count must '
                    'violate WindNeverFabricates/WindFullFileReadsAll', rd)
        if not rd.violated:
            raise Machinery('CamxLayout_MC does not distinguish the legacy '
                            'wind step count')
    items = unique([p for p in r.prints if isinstance(p, dict) and 'recs' in p])
    if not items:
        raise Machinery('CamxLayout_MC emitted nothing')
    return items
