"""C14 on GEOS-Chem binary punch files: BpchLayout_MC walks every cut offset
of every configuration against the transcribed decision procedure of the
memory-mapped reader (header walk + whole blocks) and emits the configurations;
each is reference-encoded, cut at the chosen offsets and opened with bpch1;
Bpch_Trace (kind "cuts") validates the outcome against the model and the
exposed blocks against the layout."""
import os
import shutil
import signal

import c18
from common import (unique, Machinery, run_tlc, need_ok, run_cases, scratch,
                    validate_traces, settle)


def case_cuts(arg):
    import warnings
    warnings.simplefilter('ignore')
    tid, item, cuts = arg
    cfg = item['cfg']
    from PseudoNetCDF.geoschemfiles import bpch1
    tmp = scratch('bpchcut')

    class Hang(Exception):
        pass

    def onalarm(sig, frm):
        raise Hang()
    old = signal.signal(signal.SIGALRM, onalarm)
    try:
        data = c18.serialise(item['recs'])
        c18.tables(cfg, tmp)
        obs = []
        for n in cuts:
            path = os.path.join(tmp, 'cut%d.bpch' % n)
            with open(path, 'wb') as fo:
                fo.write(data[:n])
            o = {'n': n, 'k': 'Err', 'exc': '', 'got': c18.EMPTY}
            signal.setitimer(signal.ITIMER_REAL, 20.0)
            try:
                f = bpch1(path, noscale=True)
                o['got'] = c18.present(f, cfg)
                o['k'] = 'Steps'
                del f
            except Hang:
                o['k'] = 'Hang'
            except Exception as ex:
                o['exc'] = type(ex).__name__
            finally:
                try:
                    signal.setitimer(signal.ITIMER_REAL, 0)
                except Hang:
                    signal.setitimer(signal.ITIMER_REAL, 0)
            # the public reader (pncopen(format='bpch')): it tries bpch1 and
            # falls back to the block-walking reader when that raises
            o['wk'], o['wexc'], o['wgot'] = 'Err', '', c18.EMPTY
            signal.setitimer(signal.ITIMER_REAL, 20.0)
            try:
                from PseudoNetCDF.geoschemfiles import bpch as bpchw
                f = bpchw(path, noscale=True)
                o['wgot'] = c18.present(f, cfg)
                o['wk'] = 'Steps'
                del f
            except Hang:
                o['wk'] = 'Hang'
            except Exception as ex:
                o['wexc'] = type(ex).__name__
            finally:
                try:
                    signal.setitimer(signal.ITIMER_REAL, 0)
                except Hang:
                    signal.setitimer(signal.ITIMER_REAL, 0)
            obs.append(o)
            os.remove(path)
        return {'tid': tid, 'kind': 'cuts', 'cfg': cfg, 'nbytes': len(data),
                'expbytes': item['bytes'], 'obs': obs}
    finally:
        signal.signal(signal.SIGALRM, old)
        shutil.rmtree(tmp, ignore_errors=True)


def run_bpch_cuts(out, tier, rnd):
    r = need_ok(run_tlc('BpchLayout_MC', workers=16, timeout=1800,
                        env={'PNC_EMIT': '1', 'PNC_BPCH_CUTS': '1'}),
                'BpchLayout_MC')
    out.add_tlc('BpchLayout_MC with cuts: bpch reader decision procedure on '
                'every cut offset (BpchNeverFabricates, BpchFullFileReadsAll, '
                'BpchPartialBlock)', r)
    if r.violated:
        out.model_violation(r, 'BpchLayout_MC')
    items = unique([p for p in r.prints if isinstance(p, dict) and 'recs' in p])
    if not items:
        raise Machinery('BpchLayout_MC emitted nothing')
    if tier == 'quick':
        items = rnd.sample(items, min(len(items), 12))
    args = []
    for i, it in enumerate(items):
        n = it['bytes']
        if tier != 'quick':
            cuts = list(range(0, n))
        else:
            # every tracer-block boundary of the first block, every block
            # boundary (+-1, +-4, + header) and a sample of the rest
            # (also the tracer-block boundaries inside the later blocks)
            marks = [136 + k * it['block'] + (q - 136)
                     for k in range(0, it['cfg']['nt'])
                     for q in it['pos']] + \
                [136 + k * it['block']
                 for k in range(0, it['cfg']['nt'] + 1)]
            cuts = set()
            for m in marks:
                for d in (-4, -1, 0, 1, 4, 219, 220, 221):
                    cuts.add(m + d)
            cuts |= set(rnd.sample(range(0, n), min(n, 150)))
            cuts = sorted(x for x in cuts if 0 <= x < n)
        args.append((400000 + i, it, cuts))
    res = run_cases(case_cuts, args, timeout=1800, per_child=4, chunksize=1)
    for t in res:
        if '_crash' in t or '_hang' in t:
            raise Machinery('bpch cut case failed: %r' % (t,))
    out.cov['bpch_cuts'] = sum(len(t['obs']) for t in res)
    verdicts = validate_traces('Bpch_Trace', res, out, shard=4,
                               label='bpch cuts', timeout=3000)
    settle(out, res, verdicts, None)
    return res
