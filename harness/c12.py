"""C12: decoded times are the true instants for every supported encoding.

Spec: spec/Calendar.tla (model-checked by Calendar_MC over every day
1900-2101 in three calendars) and spec/TimeDecode_Trace.tla, which computes
the expected instants of every recorded getTimes()/date2num/time2idx call.
"""
import random
import sys
from datetime import timezone

import numpy as np

from common import (Outcome, Machinery, run_tlc, need_ok, run_cases,
                    validate_traces, settle, seed, main_wrap)

PROP = 'C12'
UTC = timezone.utc
UNITSEC = {'days': 86400, 'hours': 3600, 'minutes': 60, 'seconds': 1}
CALS = ['standard', 'gregorian', 'proleptic_gregorian', 'noleap', '365_day',
        'all_leap', '366_day', None]
REFS = [(1900, 1, 1), (1970, 1, 1), (1985, 1, 1), (1999, 12, 31),
        (2000, 2, 28), (2000, 2, 29), (2000, 3, 1), (2001, 1, 1),
        (2003, 2, 28), (2004, 12, 31), (2100, 2, 28), (2100, 3, 1),
        (1950, 7, 15), (2024, 2, 29)]
REFTIMES = [(0, 0, 0), (12, 0, 0), (23, 30, 30), (6, 15, 0)]
OFFDAYS = [0, 1, 58, 59, 60, 365, 366, 1461, 36524, 36525, 73049]
# spellings of the reference date: (format id, needs seconds, tz minutes)
SPELL = ['d', 'dHMS', 'dHM', 'dH', 'dHMSZ', 'dHMZ', 'dHZ', 'dHMS UTC',
         'dHM UTC', 'dH UTC', 'dHMS+0000', 'dHMS-0500', 'dHMS+0530',
         'dHM+0000', 'd 0:0:0']


def spell(ref, fmt):
    y, mo, d, h, mi, s = ref
    date = '%04d-%02d-%02d' % (y, mo, d)
    tzm = 0
    if fmt == 'd':
        return date, (y, mo, d, 0, 0, 0), 0
    if fmt == 'd 0:0:0':
        return date + ' 0:0:0', (y, mo, d, 0, 0, 0), 0
    core = {'dHMS': '%02d:%02d:%02d' % (h, mi, s),
            'dHM': '%02d:%02d' % (h, mi), 'dH': '%02d' % h}
    for k in ('dHMS', 'dHM', 'dH'):
        if fmt.startswith(k):
            tail = fmt[len(k):]
            r = (y, mo, d, h, mi if k != 'dH' else 0, s if k == 'dHMS' else 0)
            if tail in ('+0000',):
                tzm = 0
            elif tail == '-0500':
                tzm = -300
            elif tail == '+0530':
                tzm = 330
            return date + ' ' + core[k] + tail, r, tzm
    raise ValueError(fmt)


def civil(t):
    if getattr(t, 'tzinfo', None) is not None:
        t = t.astimezone(UTC)
    return [t.year, t.month, t.day, t.hour, t.minute, t.second,
            t.microsecond]


def quarters(x, unit=1.0):
    """A float as [whole, quarter] when it is a multiple of 1/4."""
    x = float(x)
    w = int(np.floor(x))
    q = (x - w) * 4
    if abs(q - round(q)) > 1e-6 or abs(w) > 2 ** 31 - 1:
        return [0, 99]
    return [w, int(round(q))]


def run_vector(v):
    import warnings
    warnings.simplefilter('ignore')
    import PseudoNetCDF as pnc
    f = pnc.PseudoNetCDFFile()
    tr = dict(v)
    tr['res'] = 'ok'
    tr['got'] = []
    tr['bounds'] = {'h': False, 'got': [], 'exc': ''}
    tr['back'] = {'h': False, 'v': [], 'idx': [], 'strict': False,
                  'exc': ''}
    tr['synth'] = {'h': False, 'got': [], 'bgot': [], 'exc': '',
                   'shift': 0, 'sgot': []}
    tr['dt64'] = {'h': False, 'got': [], 'exc': ''}
    tr['cfbounds'] = {'h': False, 'got': [], 'exc': ''}
    kind = v['kind']
    try:
        if kind == 'cf':
            n = len(v['w'])
            f.createDimension('time', n)
            tv = f.createVariable('time', v.get('store', 'd'), ('time',))
            tv[:] = [w + q / 4. for w, q in zip(v['w'], v['q'])]
            tv.units = '%s since %s' % (v['unit'], v['refstr'])
            if v['cal'] is not None and v['calattr']:
                tv.calendar = v['cal']
            if v.get('cfb'):
                # CF cell bounds: rows [t_i, t_i+1], the last cell one unit
                # long; the bounds variable has the units of the time
                # variable and (as usual) no calendar attribute of its own
                vals = [w + q / 4. for w, q in zip(v['w'], v['q'])]
                f.createDimension('nv', 2)
                tb = f.createVariable('time_bounds', 'd', ('time', 'nv'))
                tb[:, 0] = vals
                tb[:, 1] = vals[1:] + [vals[-1] + 1]
                tb.units = tv.units
        elif kind == 'tflag':
            n = len(v['dates'])
            f.createDimension('TSTEP', n)
            f.createDimension('VAR', 1)
            f.createDimension('DATE-TIME', 2)
            tf = f.createVariable('TFLAG', 'i', ('TSTEP', 'VAR', 'DATE-TIME'))
            tf[:, 0, 0] = v['dates']
            tf[:, 0, 1] = v['times']
            f.TSTEP = np.int32(v['tstep'])
            f.SDATE = np.int32(v['dates'][0])
            f.STIME = np.int32(v['times'][0])
        elif kind == 'sdate':
            f.createDimension('TSTEP', v['n'])
            f.SDATE = np.int32(v['sdate'])
            f.STIME = np.int32(v['stime'])
            f.TSTEP = np.int32(v['tstep'])
        elif kind == 'tau':
            n = len(v['w'])
            f.createDimension('time', n)
            tv = f.createVariable('tau0', 'd', ('time',))
            tv[:] = [w + q / 4. for w, q in zip(v['w'], v['q'])]
        before = None
        if kind == 'tflag':
            before = f.variables['TFLAG'][...].copy()
        times = f.getTimes()
        tr['got'] = [civil(t) for t in times]
    except Exception as ex:
        tr['res'] = 'raised'
        tr['exc'] = '%s: %s' % (type(ex).__name__, str(ex)[:100])
        return tr
    tr['cfbounds'] = {'h': False, 'got': [], 'exc': ''}
    if kind == 'cf' and v.get('cfb'):
        try:
            tr['cfbounds'] = {'h': True, 'exc': '', 'got': [
                civil(t) for t in f.getTimes(bounds=True)]}
        except Exception as ex:
            tr['cfbounds']['exc'] = '%s: %s' % (type(ex).__name__,
                                                str(ex)[:100])
    # the numpy form of the same instants: getTimes(datetype='datetime64[us]')
    tr['dt64'] = {'h': False, 'got': [], 'exc': ''}
    try:
        t64 = f.getTimes(datetype='datetime64[us]')
        got = []
        for x in np.asarray(t64).ravel():
            d = x.astype('datetime64[us]').astype(object)
            got.append([d.year, d.month, d.day, d.hour, d.minute, d.second,
                        d.microsecond])
        tr['dt64'] = {'h': True, 'got': got, 'exc': ''}
    except Exception as ex:
        tr['dt64']['exc'] = '%s: %s' % (type(ex).__name__, str(ex)[:100])
    # bounds=True for the IOAPI encodings
    if kind in ('tflag', 'sdate') and v.get('want_bounds'):
        try:
            tb = f.getTimes(bounds=True)
            tr['bounds'] = {'h': True, 'got': [civil(t) for t in tb], 'exc': ''}
        except Exception as ex:
            tr['bounds'] = {'h': False, 'got': [],
                            'exc': '%s: %s' % (type(ex).__name__,
                                               str(ex)[:100])}
    # inverse maps (CF)
    if kind == 'cf':
        try:
            nums = f.date2num(times)
            unit = 1.0
            back = [quarters(x) for x in np.asarray(nums).ravel()]
            strict = all(b > a for a, b in zip(
                [w * 4 + q for w, q in zip(v['w'], v['q'])][:-1],
                [w * 4 + q for w, q in zip(v['w'], v['q'])][1:])) \
                and len(v['w']) >= 2
            idx = []
            if strict:
                ii = f.time2idx(times, dim='time')
                idx = [int(x) for x in np.ma.filled(ii, -1).ravel()]
            tr['back'] = {'h': True, 'v': back, 'idx': idx, 'strict': strict,
                          'exc': ''}
        except Exception as ex:
            tr['back'] = {'h': False, 'v': [], 'idx': [], 'strict': False,
                          'exc': '%s: %s' % (type(ex).__name__,
                                             str(ex)[:100])}
    # CF time variable synthesised from IOAPI metadata
    if kind in ('tflag', 'sdate') and v.get('want_synth'):
        try:
            from PseudoNetCDF.conventions.ioapi._ioapi import \
                add_time_variable
            g = f.copy()
            add_time_variable(g, 'time')
            tt = g.getTimes()
            # ... and its cell bounds (add_time_variables adds both)
            add_time_variable(g, 'time_bounds')
            tb = g.getTimes(bounds=True)
            tr['synth'] = {'h': True, 'got': [civil(t) for t in tt],
                           'bgot': [civil(t) for t in tb], 'exc': '',
                           'shift': 0, 'sgot': []}
            # the same file starting `shift` days later gets its own CF time
            # variable; the two are stacked along TSTEP: the decoded times are
            # the instants of the first followed by those of the second
            import datetime as dtm
            shift = v.get('shift', 0)
            ds = v['dates'] if kind == 'tflag' else [v['sdate']]
            if shift and all(1900001 <= d <= 2100365 and 1 <= d % 1000 <= 365
                             for d in ds):
                def later(d):
                    x = dtm.date(d // 1000, 1, 1) + dtm.timedelta(
                        days=d % 1000 - 1 + shift)
                    return x.year * 1000 + x.timetuple().tm_yday
                f2 = f.copy()
                if kind == 'tflag':
                    f2.variables['TFLAG'][:, 0, 0] = [later(d) for d in ds]
                    f2.SDATE = np.int32(later(ds[0]))
                else:
                    f2.SDATE = np.int32(later(ds[0]))
                add_time_variable(f2, 'time')
                g1 = f.copy()
                add_time_variable(g1, 'time')
                st = g1.stack(f2, 'TSTEP')
                tr['synth']['shift'] = shift
                tr['synth']['sgot'] = [civil(t) for t in st.getTimes()]
        except Exception as ex:
            tr['synth'] = {'h': False, 'got': [], 'bgot': [],
                           'shift': 0, 'sgot': [],
                           'exc': '%s: %s' % (type(ex).__name__,
                                              str(ex)[:100])}
    return tr


def gen_vectors(rnd, tier):
    vs = []
    ncf = 1500 if tier == 'quick' else 20000
    for i in range(ncf):
        ref = rnd.choice(REFS) + rnd.choice(REFTIMES)
        fmt = rnd.choice(SPELL)
        refstr, r, tzm = spell(ref, fmt)
        unit = rnd.choice(sorted(UNITSEC))
        cal = rnd.choice(CALS)
        n = rnd.randint(1, 4)
        ws, qs = [], []
        base = rnd.choice(OFFDAYS) * (86400 // UNITSEC[unit])
        step = rnd.choice([1, 1, 3, 24, 25, 1440])
        for k in range(n):
            w = base + k * step + (rnd.randint(0, 50) if k == 0 and
                                   rnd.random() < 0.3 else 0)
            if k and w <= ws[-1]:
                w = ws[-1] + 1
            if w > 2000000000:
                w = w % 2000000000
            ws.append(w)
            qs.append(rnd.choice([0, 0, 0, 1, 2, 3]))
        # feb-29 reference dates do not exist in a 365-day calendar
        if cal in ('noleap', '365_day') and (r[1], r[2]) == (2, 29):
            continue
        # storage type of the time variable: double, or (whole numbers only)
        # 32- or 64-bit integers, as reanalysis-style files have them
        store = rnd.choice(['d', 'd', 'i', 'q'])
        if store != 'd':
            qs = [0] * len(qs)
            if max(ws) > 2000000000:
                store = 'q'
        vs.append({'kind': 'cf', 'cal': cal or 'standard',
                   'calattr': cal is not None, 'unit': unit, 'ref': list(r),
                   'tzm': tzm, 'refstr': refstr, 'w': ws, 'q': qs,
                   'store': store,
                   'cfb': store == 'd' and rnd.random() < 0.4})
    nio = 700 if tier == 'quick' else 8000
    years = [1999, 2000, 2004, 2011, 2023, 2100]
    for i in range(nio):
        y = rnd.choice(years)
        ylen = 366 if (y % 4 == 0 and (y % 100 != 0 or y % 400 == 0)) else 365
        jjj = rnd.choice([1, 2, 58, 59, 60, 61, ylen - 1, ylen,
                          rnd.randint(1, ylen)])
        stime = rnd.choice([0, 120000, 233030, 230000, 10000, 235959])
        tstep = rnd.choice([10000, 3000, 240000, 1, 60000, 250000, 1500,
                            1000000, 7440000, 1683015])
        n = rnd.randint(1, 4)
        sdate = y * 1000 + jjj
        if rnd.random() < 0.5:
            # build the flags with plain integer arithmetic on seconds/days
            sec0 = (stime // 10000) * 3600 + (stime // 100 % 100) * 60 + \
                stime % 100
            dsec = (tstep // 10000) * 3600 + (tstep // 100 % 100) * 60 + \
                tstep % 100
            dates, times = [], []
            import datetime as dtm
            t0 = dtm.datetime(y, 1, 1) + dtm.timedelta(days=jjj - 1,
                                                       seconds=sec0)
            for k in range(n):
                t = t0 + dtm.timedelta(seconds=k * dsec)
                dates.append(int(t.strftime('%Y%j')))
                times.append(int(t.strftime('%H%M%S')))
            vs.append({'kind': 'tflag', 'dates': dates, 'times': times,
                       'tstep': tstep, 'want_bounds': True,
                       'want_synth': True,
                       'shift': rnd.choice([0, 1, 2, 30, 366])})
        else:
            vs.append({'kind': 'sdate', 'sdate': sdate, 'stime': stime,
                       'tstep': tstep, 'n': n, 'want_bounds': True,
                       'want_synth': True,
                       'shift': rnd.choice([0, 1, 2, 30, 366])})
    for i in range(100 if tier == 'quick' else 1000):
        n = rnd.randint(1, 3)
        base = rnd.choice([0, 24, 8760, 140256, 333333])
        vs.append({'kind': 'tau', 'w': [base + 24 * k for k in range(n)],
                   'q': [rnd.choice([0, 2]) for k in range(n)]})
    # 365- / 366-day calendars where the library's decoding is right (whole
    # days, hours or minutes from a 1 January 00:00 reference) with CF cell
    # bounds, on offsets around the leap days the calendars disagree about
    for cal in ('noleap', '365_day', 'all_leap', '366_day'):
        for ry in (1970, 2001, 2003):
            for unit in ('days', 'hours'):
                per = 86400 // UNITSEC[unit]
                for d0 in (58, 59, 60, 424, 1153, 1154, 1155):
                    refstr, r, tzm = spell((ry, 1, 1, 0, 0, 0), 'dHMS')
                    vs.append({'kind': 'cf', 'cal': cal, 'calattr': True,
                               'unit': unit, 'ref': list(r), 'tzm': tzm,
                               'refstr': refstr,
                               'w': [(d0 + k) * per for k in range(3)],
                               'q': [0, 0, 0], 'store': 'd', 'cfb': True})
    for i, v in enumerate(vs):
        v['tid'] = i + 1
    return vs


def run(tier):
    out = Outcome(PROP, tier)
    rnd = random.Random(seed() * 7919 + 12)
    r = need_ok(run_tlc('Calendar_MC', workers=16, timeout=1200,
                        env={'PNC_CAL_RANGE': 'quick' if tier == 'quick'
                             else 'full'}), 'Calendar_MC')
    out.add_tlc('Calendar_MC (civil<->day number, successor, YYYYJJJ, HHMMSS)',
                r, 'every day 1900-2101 x 3 calendars' if tier != 'quick'
                else 'quick day set')
    if r.violated:
        out.model_violation(r, 'Calendar_MC')
    vs = gen_vectors(rnd, tier)
    res = run_cases(run_vector, vs, timeout=30, per_child=200, chunksize=20)
    traces = []
    for v, t in zip(vs, res):
        if '_crash' in t or '_hang' in t:
            raise Machinery('vector failed: %r %r' % (v, t))
        traces.append(t)
    out.cov['evaluations'] = len(traces)
    out.cov['decoded'] = sum(1 for t in traces if t['res'] == 'ok')
    out.cov['raised'] = sum(1 for t in traces if t['res'] != 'ok')
    out.cov['distinct_nontrivial'] = len(set(
        (t['kind'], t.get('cal'), t.get('unit'), tuple(t.get('ref', [])),
         t.get('refstr', '')[10:], tuple(t.get('w', [])), t.get('sdate'),
         t.get('stime'), t.get('tstep'), tuple(t.get('dates', [])))
        for t in traces if t['res'] == 'ok'))
    out.cov['rule'] = ('a case is one file description (encoding, calendar, '
                       'unit, reference date + spelling, offsets | IOAPI '
                       'start/step); non-trivial = getTimes returned; '
                       'distinct = different description')
    for t in traces[:2] + traces[-2:-1]:
        out.sample({k: t[k] for k in t if k not in ('tid',)})
    verdicts = validate_traces('TimeDecode_Trace', traces, out, shard=3000)
    settle(out, traces, verdicts, None)
    out.assumptions = [
        'offsets are multiples of 1/4 unit so that float64 values are exact',
        'instants of the 365/366-day calendars that no real datetime can show '
        '(Feb 29 of a non-leap year) are not demanded',
        'the TLA+ calendar is proleptic Gregorian (identical to CF standard '
        'after 1582)']
    return out.finish()


if __name__ == '__main__':
    tier = sys.argv[sys.argv.index('--tier') + 1] if '--tier' in sys.argv else 'quick'
    main_wrap(lambda: run(tier))
