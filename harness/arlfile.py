"""C20, second sentence: packed-bit FILES.  spec/ArlLayout.tla is the record
grammar of the ARL format (index record with grid and variable definitions,
one labelled record per variable and level, bytes packed as ArlPack defines);
ArlLayout_MC checks record sizes and the packing invariants on every
configuration and emits the records; they are serialised by the fixed-width
text encoder below and read with arlpackedbit; Arl_Trace validates variable
lists, level lists, times and every unpacked field."""
import json
import os
import shutil

import numpy as np

from common import (unique, Machinery, run_tlc, need_ok, run_cases, scratch,
                    validate_traces, settle)


def serialise(recs):
    out = []
    for rec in recs:
        b = b''
        for f in rec:
            t = f['t']
            if t == 'a':
                b += f['v'].encode('ascii').ljust(f['n'])[:f['n']]
            elif t == 'i':
                b += ('%*d' % (f['n'], f['v'])).encode('ascii')
            elif t == 'z':
                b += ('%0*d' % (f['n'], f['v'])).encode('ascii')
            elif t == 'e':
                b += ('%14.7E' % (f['num'] / f['den'])).encode('ascii')
            elif t == 'f':
                b += ('%*.*f' % (f['n'], f['p'], f['num'] / f['den'])
                      ).encode('ascii')
            elif t == 'b':
                b += bytes(bytearray(x for row in f['v'] for x in row))
            else:
                raise ValueError(f)
        out.append(b)
    return b''.join(out)


def case_read(arg):
    import warnings
    warnings.simplefilter('ignore')
    tid, item = arg[:2]
    decoy = arg[2] if len(arg) > 2 else None
    cfg = item['cfg']
    from PseudoNetCDF.noaafiles._arl import arlpackedbit
    tmp = scratch('arl')
    tr = {'tid': tid, 'kind': 'file', 'cfg': cfg, 'res': 'ok', 'exc': '',
          'nbytes': 0,
          'dims': {'time': -1, 'z': -1, 'y': -1, 'x': -1}, 'names': [],
          'sfclvl': -1, 'levels': [], 'reftime': [], 'hours': [], 'vars': []}
    try:
        data = serialise(item['recs'])
        tr['nbytes'] = len(data)
        path = os.path.join(tmp, 'f.arl')
        with open(path, 'wb') as fo:
            fo.write(data)
        try:
            f = arlpackedbit(path)
            if decoy is not None:
                # another ARL file (other levels and variables) is opened
                # and read before this one is read: readers do not share state
                path2 = os.path.join(tmp, 'g.arl')
                with open(path2, 'wb') as fo:
                    fo.write(serialise(decoy['recs']))
                try:
                    g = arlpackedbit(path2)
                    for k in list(g.variables.keys()):
                        np.asarray(g.variables[k][...])
                except Exception:
                    pass
            for k in tr['dims']:
                tr['dims'][k] = int(len(f.dimensions[k])) \
                    if k in f.dimensions else -1
            coords = ('time', 'z', 'y', 'x', 'x_bounds', 'y_bounds', 'crs')
            tr['names'] = [str(k) for k in f.variables.keys()
                           if k not in coords]
            tr['sfclvl'] = int(round(float(f.SFCVGLVL) * 10000))
            tr['levels'] = [int(round(float(x) * 10000))
                            for x in np.asarray(f.variables['z'][:])]
            tv = f.variables['time']
            tr['hours'] = [int(x) for x in np.asarray(tv[:])]
            import datetime as dtm
            ref = dtm.datetime.strptime(str(tv.units),
                                        'hours since %Y-%m-%d %H:%M:%S')
            tr['reftime'] = [ref.year, ref.month, ref.day, ref.hour,
                             ref.minute, ref.second]
            nsfc = len(cfg['sfc'])
            laynames = []
            for lv in cfg['levv']:
                for nm in lv:
                    if nm not in laynames:
                        laynames.append(nm)
            for s, name in enumerate(cfg['sfc'] + laynames):
                rec = {'ok': True, 'v': []}
                if name not in f.variables:
                    rec['ok'] = False
                    tr['vars'].append(rec)
                    continue
                a = np.asarray(f.variables[name][...], dtype='d')
                if s < nsfc and a.ndim == 3:
                    a = a[:, None, :, :]
                if a.ndim != 4 or not (a == np.round(a)).all() or \
                        (np.abs(a) > 2e9).any():
                    rec['ok'] = False
                else:
                    rec['v'] = [[[[int(x) for x in row] for row in lev]
                                 for lev in tm] for tm in a]
                tr['vars'].append(rec)
        except Exception as ex:
            tr['res'] = 'raised'
            tr['exc'] = '%s: %s' % (type(ex).__name__, str(ex)[:100])
        return tr
    finally:
        shutil.rmtree(tmp, ignore_errors=True)


def case_leveltext(arg):
    """The index-record writer's level texts: getvgtxts, and
    readvardef(writevardef(...))."""
    import warnings
    warnings.simplefilter('ignore')
    tid, v5 = arg
    from PseudoNetCDF.noaafiles._arl import getvgtxts, writevardef, readvardef
    tr = {'tid': tid, 'kind': 'lvltxt', 'cfg': {}, 'v5': v5, 'res': 'ok',
          'exc': '', 'txt': [], 'back': []}
    try:
        lv = [x / 100000. for x in v5]
        tr['txt'] = [list(t) for t in getvgtxts(lv)]
        keys = {x: [b'TEMP'] for x in lv}
        sums = {(x, b'TEMP'): 7 for x in lv}
        text = writevardef(lv, keys, sums)
        out = {}
        readvardef(np.bytes_(text.encode('ascii')), out)
        got = [float(x) for x in out['vglvls']] if 'vglvls' in out else []
        tr['back'] = [int(round(x * 100000)) for x in got]
    except Exception as ex:
        tr['res'] = 'raised'
        tr['exc'] = '%s: %s' % (type(ex).__name__, str(ex)[:100])
        tr['txt'] = [[] for _ in v5]
        tr['back'] = [-1 for _ in v5]
    return tr


def run_arl_files(out, tier):
    scale = 'quick' if tier == 'quick' else 'full'
    # two runs side by side: the small grids, and the grids with 1000 or more
    # cells in one direction (packing a long field takes TLC a while)
    import concurrent.futures as cf
    items = []
    with cf.ThreadPoolExecutor(max_workers=2) as ex:
        futs = [(fam, ex.submit(run_tlc, 'ArlLayout_MC', workers=4,
                                timeout=3000,
                                env={'PNC_EMIT': '1', 'PNC_SCALE': scale,
                                     'PNC_ARL_FAMILY': fam}))
                for fam in ('small', 'big')]
        for fam, fu in futs:
            r = need_ok(fu.result(), 'ArlLayout_MC ' + fam)
            out.add_tlc('ArlLayout_MC (%s grids): every record has the record '
                        'length, record count, every field packs within one '
                        'step without wrap-around' % fam, r)
            if r.violated:
                out.model_violation(r, 'ArlLayout_MC ' + fam)
            items += unique([p for p in r.prints
                             if isinstance(p, dict) and 'recs' in p])
    if not items:
        raise Machinery('ArlLayout_MC emitted nothing')
    small = sorted(items, key=lambda it: len(json.dumps(it['recs'])))[:12]
    args = []
    for i, it in enumerate(items):
        dec = [d for d in small if d['cfg'].get('levv') != it['cfg'].get(
            'levv')]
        args.append((700000 + i, it, dec[i % len(dec)]) if dec and i % 2 == 0
                    else (700000 + i, it))
    res = run_cases(case_read, args, timeout=300, per_child=4, chunksize=1)
    for t in res:
        if '_crash' in t or '_hang' in t:
            raise Machinery('ARL file case failed: %r' % (t,))
    out.cov['arl_files_read'] = len(res)
    # level texts of the index record (sigma levels with up to five decimals,
    # pressure levels, heights)
    import random as _r
    rnd = _r.Random(len(items))
    sets = [[100000, 99875, 98125, 50000, 25], [0, 100000000, 92500000, 5000000],
            [99999, 12345, 1, 999990, 1000000, 9999900]]
    for i in range(20 if tier == 'quick' else 200):
        s_ = []
        for k in range(rnd.randint(2, 5)):
            nd = rnd.randint(0, 4)
            if nd == 0:
                s_.append(rnd.randint(0, 99999))
            else:
                dec = 5 - nd
                ip = rnd.randint(10 ** (nd - 1), 10 ** nd - 1)
                fr = rnd.randint(0, 10 ** dec - 1) * 10 ** (5 - dec)
                s_.append(ip * 100000 + fr)
        sets.append(sorted(set(s_), reverse=True))
    lres = run_cases(case_leveltext,
                     [(750000 + i, s_) for i, s_ in enumerate(sets)],
                     timeout=60, per_child=10)
    for t in lres:
        if '_crash' in t or '_hang' in t:
            raise Machinery('ARL level text case failed: %r' % (t,))
    res = res + lres
    out.cov['arl_level_text_cases'] = len(lres)
    verdicts = validate_traces('Arl_Trace', res, out, shard=3,
                               label='ARL files', timeout=3000)
    settle(out, res, verdicts, None)
    return res
