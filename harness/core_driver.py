"""Programs over the PseudoNetCDF core operations: templates, generators,
executor and recorder (C01-C06).  The recorded traces are validated by
spec/PncCore_Trace.tla; nothing here knows what the right answer is.
"""
import json
import os
import random
import shutil

import numpy as np

from common import (Machinery, run_tlc, need_ok, run_cases, scratch,
                    validate_traces, settle, seed)
from project import project

NCPU_MC = 16
PROP_OF = {'interp': 'C17', 'slice': 'C02', 'apply': 'C03', 'stack': 'C04', 'arith': 'C06',
           'eval': 'C06', 'mask': 'C06'}


# ---------------------------------------------------------------------------
# templates
# ---------------------------------------------------------------------------
def _tok(shape, base, dt):
    n = int(np.prod(shape)) if len(shape) else 1
    return (np.arange(n).reshape(shape) + base).astype(dt)


def template(tid):
    import PseudoNetCDF as pnc
    f = pnc.PseudoNetCDFFile()
    if tid == 'T1':
        f.createDimension('t', 2).setunlimited(True)
        f.createDimension('y', 2)
        f.createDimension('x', 3)
        v = f.createVariable('A', 'f', ('t', 'y', 'x'))
        v[...] = _tok((2, 2, 3), 100, 'f')
        v.units = 'ppb'
        v.long_name = 'A'
        v = f.createVariable('B', 'i', ('y', 'x'))
        v[...] = _tok((2, 3), 200, 'i')
        v.units = '1'
        v = f.createVariable('x', 'd', ('x',))
        v[...] = [10, 20, 30]
        v.units = 'm'
        v = f.createVariable('T', 'f', ('t',))
        v[...] = [300, 301]
        f.setCoords(['x'])
        f.title = 'template one'
        f.n = 3
        f.r = 2.5
        f.arr = np.array([1, 2, 3], dtype='i')
    elif tid == 'T2':
        f.createDimension('t', 3).setunlimited(True)
        f.createDimension('z', 1)
        f.createDimension('x', 2)
        v = f.createVariable('M', 'f', ('t', 'x'), fill_value=-999.)
        v[...] = np.ma.masked_array(_tok((3, 2), 110, 'f'),
                                    mask=[[0, 1], [0, 0], [1, 0]])
        v.units = 'K'
        v = f.createVariable('C', 'f', ('t', 'z', 'x'))
        v[...] = _tok((3, 1, 2), 130, 'f')
        v.units = 'm'
        v = f.createVariable('N', 'i', ('t', 'x'), fill_value=-1)
        v[...] = np.ma.masked_array(_tok((3, 2), 150, 'i'),
                                    mask=[[0, 0], [1, 0], [0, 0]])
        v = f.createVariable('E', 'd', ('z',))
        v[...] = [5]
        # an integer masked variable with unmasked zeros (divisors)
        v = f.createVariable('Z', 'i', ('t', 'x'), fill_value=-1)
        v[...] = np.ma.masked_array([[0, 1], [2, 0], [3, 4]],
                                    mask=[[0, 0], [0, 0], [1, 0]])
        f.history = 'h'
    elif tid == 'T3':
        f.createDimension('y', 3)
        f.createDimension('t', 2).setunlimited(True)
        f.createDimension('x', 2)
        f.createDimension('nv', 2)
        v = f.createVariable('P', 'd', ('y', 't', 'x'))
        v[...] = _tok((3, 2, 2), 300, 'd')
        v.units = 'u'
        v = f.createVariable('Q', 'f', ('t',))
        v[...] = [7, 9]
        v = f.createVariable('y', 'f', ('y',))
        v[...] = [4, 12, 20]
        v = f.createVariable('y_bnds', 'f', ('y', 'nv'))
        v[...] = [[0, 8], [8, 16], [16, 24]]
        v = f.createVariable('R', 'f', ('x', 'y'))
        v[...] = _tok((2, 3), 330, 'f')
        f.setCoords(['y', 'y_bnds'])
        f.note = 'unlimited not first'
    elif tid == 'T4':
        f.createDimension('t', 2).setunlimited(True)
        f.createDimension('z', 1)
        f.createDimension('y', 2)
        f.createDimension('x', 2)
        v = f.createVariable('D', 'f', ('t', 'z', 'y', 'x'))
        v[...] = _tok((2, 1, 2, 2), 400, 'f')
        v.units = 'q'
        v = f.createVariable('G', 'f', ('x',), fill_value=-5.)
        v[...] = np.ma.masked_array([440, 441], mask=[0, 1])
        v = f.createVariable('H', 'i', ('y', 'x'))
        v[...] = [[0, 1], [2, 0]]
        f.k = 1
    elif tid == 'T5':
        # time axis for getTimes / val2idx style queries
        f.createDimension('time', 4).setunlimited(True)
        f.createDimension('lev', 3)
        v = f.createVariable('time', 'd', ('time',))
        v[...] = [0, 6, 12, 18]
        v.units = 'hours since 2000-02-28 00:00:00'
        v = f.createVariable('lev', 'f', ('lev',))
        v[...] = [10, 20, 40]
        v = f.createVariable('W', 'f', ('time', 'lev'))
        v[...] = _tok((4, 3), 500, 'f')
        f.setCoords(['time', 'lev'])
        f.title = 'times'
    elif tid == 'T6':
        # non-finite data (isolation checks of mask(invalid=True) and friends)
        f.createDimension('t', 2).setunlimited(True)
        f.createDimension('x', 3)
        v = f.createVariable('V', 'f', ('t', 'x'), fill_value=-999.)
        v[...] = np.ma.masked_array([[1, np.nan, 3], [np.inf, 5, 6]],
                                    mask=[[0, 0, 1], [0, 0, 0]])
        v.units = 'u'
        v = f.createVariable('U', 'd', ('t', 'x'))
        v[...] = [[np.nan, 2, 3], [4, 5, -np.inf]]
        v = f.createVariable('x', 'd', ('x',))
        v[...] = [1, 2, 3]
        f.setCoords(['x'])
    elif tid == 'T8':
        # time flags without a time variable; the date -635 means "time
        # independent" and is decoded as 1970001
        f.createDimension('TSTEP', 3).setunlimited(True)
        f.createDimension('VAR', 1)
        f.createDimension('DATE-TIME', 2)
        f.createDimension('x', 2)
        v = f.createVariable('TFLAG', 'i', ('TSTEP', 'VAR', 'DATE-TIME'))
        v[...] = [[[-635, 0]], [[-635, 10000]], [[2001001, 0]]]
        v.units = '<YYYYDDD,HHMMSS>'
        v = f.createVariable('S', 'f', ('TSTEP', 'x'))
        v[...] = _tok((3, 2), 800, 'f')
        f.TSTEP = 10000
    elif tid == 'T7':
        # a genuinely four-dimensional variable (zipped selections on
        # non-adjacent axes, multi-axis reductions)
        f.createDimension('t', 2).setunlimited(True)
        f.createDimension('z', 3)
        f.createDimension('y', 2)
        f.createDimension('x', 3)
        v = f.createVariable('F', 'f', ('t', 'z', 'y', 'x'), fill_value=-9.)
        m = np.zeros((2, 3, 2, 3), bool)
        m[0, 1, 0, 2] = m[1, 2, 1, 0] = m[1, 0, 0, 0] = True
        v[...] = np.ma.masked_array(_tok((2, 3, 2, 3), 700, 'f'), mask=m)
        v.units = 'w'
        v = f.createVariable('G', 'i', ('z', 'x'))
        v[...] = _tok((3, 3), 760, 'i')
        v = f.createVariable('z', 'f', ('z',))
        v[...] = [1, 2, 4]
        f.setCoords(['z'])
    elif tid == 'T9':
        # numbered dimension names (the string forms of the command line
        # address 'lev' AND 'lev1', 'lev2' - not 'lev2m')
        f.createDimension('t', 2).setunlimited(True)
        f.createDimension('lev', 3)
        f.createDimension('lev2', 2)
        f.createDimension('lev2m', 2)
        f.createDimension('lev10', 2)
        v = f.createVariable('A', 'f', ('t', 'lev'))
        v[...] = _tok((2, 3), 900, 'f')
        v = f.createVariable('B', 'f', ('t', 'lev2'), fill_value=-9.)
        v[...] = np.ma.masked_array(_tok((2, 2), 920, 'f'),
                                    mask=[[0, 1], [0, 0]])
        v = f.createVariable('C', 'd', ('t', 'lev2m'))
        v[...] = _tok((2, 2), 940, 'd')
        v = f.createVariable('D', 'i', ('lev2m', 'lev'))
        v[...] = _tok((2, 3), 960, 'i')
        v = f.createVariable('E', 'f', ('lev10', 'lev2'))
        v[...] = _tok((2, 2), 980, 'f')
        f.title = 'numbered dimensions'
    elif tid == 'T10':
        # integer codes of large magnitude (dates as YYYYJJJ): neighbouring
        # values differ by far less than 1e-5 relative
        f.createDimension('t', 3).setunlimited(True)
        f.createDimension('x', 2)
        v = f.createVariable('DATE', 'i', ('t', 'x'))
        v[...] = [[2019001, 2019002], [2019003, 2019021], [2019022, 2020001]]
        v = f.createVariable('DATEM', 'i', ('t', 'x'), fill_value=-1)
        v[...] = np.ma.masked_array(
            [[2019001, 2019002], [2019003, 2019021], [2019022, 2020001]],
            mask=[[0, 0], [1, 0], [0, 0]])
        v = f.createVariable('FLAG', 'i', ('t',))
        v[...] = [1, 2, 1]
        v = f.createVariable('Q', 'd', ('t', 'x'))
        v[...] = [[1, 2], [3, 2], [5, 1]]
    elif tid in ('T12', 'T13'):
        # the same file with narrow (T12) and wide (T13) storage types: a
        # binary operator between them must give the exact results (int16
        # products beyond 32767, float32 against float64)
        f.createDimension('t', 2).setunlimited(True)
        f.createDimension('x', 2)
        it, ft = ('h', 'f') if tid == 'T12' else ('i', 'd')
        v = f.createVariable('C', it, ('t', 'x'))
        v[...] = [[200, 300], [150, 181]]
        v = f.createVariable('R', ft, ('t', 'x'))
        v[...] = [[3, 1000], [70, 12]]
        v = f.createVariable('CM', it, ('t', 'x'), fill_value=-1)
        v[...] = np.ma.masked_array([[250, 255], [128, 129]],
                                    mask=[[0, 1], [0, 0]])
    elif tid == 'T11':
        # a variable that uses one dimension twice (an averaging kernel)
        f.createDimension('t', 2).setunlimited(True)
        f.createDimension('lev', 3)
        v = f.createVariable('AK', 'd', ('t', 'lev', 'lev'))
        v[...] = _tok((2, 3, 3), 1100, 'd')
        v = f.createVariable('AKM', 'f', ('lev', 'lev'), fill_value=-9.)
        v[...] = np.ma.masked_array(_tok((3, 3), 1150, 'f'),
                                    mask=[[0, 1, 0], [0, 0, 0], [0, 0, 1]])
        v = f.createVariable('B', 'd', ('t', 'lev'))
        v[...] = _tok((2, 3), 1170, 'd')
    elif tid == 'M1':
        # the template of the bounded model spec/PncCore_MC.tla (M1)
        f.createDimension('t', 2).setunlimited(True)
        f.createDimension('y', 2)
        f.createDimension('x', 2)
        f.createVariable('A', 'f', ('t', 'y', 'x'))[...] = _tok((2, 2, 2),
                                                              100, 'f')
        f.createVariable('B', 'i', ('y', 'x'))[...] = _tok((2, 2), 200, 'i')
        f.createVariable('x', 'd', ('x',))[...] = [10, 20]
        v = f.createVariable('M', 'f', ('t', 'x'), fill_value=-999.)
        v[...] = np.ma.masked_array([[110, 111], [112, 113]],
                                    mask=[[0, 1], [0, 0]])
        f.setCoords(['x'])
    elif tid == 'M2':
        f.createDimension('y', 3)
        f.createDimension('t', 2).setunlimited(True)
        f.createDimension('z', 1)
        f.createVariable('P', 'd', ('y', 't', 'z'))[...] = _tok((3, 2, 1),
                                                              300, 'd')
        f.createVariable('Q', 'f', ('t',))[...] = [7, 9]
        v = f.createVariable('N', 'i', ('y', 't'), fill_value=-1)
        v[...] = np.ma.masked_array(_tok((3, 2), 150, 'i'),
                                    mask=[[0, 0], [1, 0], [0, 0]])
        f.createVariable('E', 'd', ('z',))[...] = [5]
    else:
        raise ValueError(tid)
    return f


TEMPLATES = ['T1', 'T2', 'T3', 'T4', 'T5', 'T7', 'T9']


# ---------------------------------------------------------------------------
# argument conversion
# ---------------------------------------------------------------------------
def fz_of(dimnames):
    """The 'fz' argument of a string-form step: the dimension names of the
    source file and their characters (spec/PncCore.tla FuzzyTargets)."""
    names = [str(d) for d in dimnames]
    return {'names': names, 'chars': [list(n) for n in names]}


def py_sel(s):
    if s['k'] == 'int':
        # (numpy integers are no subclass of int)
        return np.int64(s['v']) if s.get('np') else int(s['v'])
    if s['k'] == 'list':
        return [int(x) for x in s['v']]
    if s['k'] == 'bool':
        return np.array([bool(x) for x in s['v']])
    h, v = s['h'], s['v']
    return slice(*[(int(v[i]) if h[i] else None) for i in range(3)])


CALLABLES = {
    'diff': lambda x: np.diff(x),
    'rev': lambda x: x[::-1],
    'sub2': lambda x: x[::2],
    'cumsum': lambda x: np.cumsum(x),
    'conv11v': lambda x: np.convolve(x, [1, 1], 'valid'),
    'conv11f': lambda x: np.convolve(x, [1, 1], 'full'),
    'conv121s': lambda x: np.convolve(x, [1, 2, 1], 'same'),
    'first': lambda x: x[:1],
    # scalar-returning callables (np.apply_along_axis drops the axis)
    'npmax': np.max,
    'npsum': np.sum,
}
# the convolutions above in the string form of convolve_dim: mode, weights
CONVDEFS = {'conv11v': 'valid,1,1', 'conv11f': 'full,1,1',
            'conv121s': 'same,1,2,1'}
PYOP = {'+': '__add__', '-': '__sub__', '*': '__mul__', '/': '__truediv__',
        '//': '__floordiv__', '%': '__mod__', '**': '__pow__',
        '<': '__lt__', '<=': '__le__', '>': '__gt__', '>=': '__ge__',
        '==': '__eq__', '!=': '__ne__'}


def expr_str(e):
    if e['t'] == 'var':
        return e['k']
    if e['t'] == 'int':
        return '(%d)' % e['v']
    if e['t'] == 'bin':
        return '(%s %s %s)' % (expr_str(e['l']), e['op'], expr_str(e['r']))
    if e['t'] == 'asarr':
        return 'np.asarray(%s)' % expr_str(e['e'])
    if e['t'] == 'part':
        # a view of part of a variable (its labels no longer fit its shape)
        return '%s[%s]' % (expr_str(e['e']),
                           {'first': '0', 'tail': '1:', 'every2': '::2',
                            'all': '...'}[e['how']]) \
            if e['how'] != 'marr' else '%s.array()' % expr_str(e['e'])
    if e['t'] == 'where':
        return 'np.ma.where(%s, %s, %s)' % (expr_str(e['c']),
                                            expr_str(e['x']),
                                            expr_str(e['y']))
    raise ValueError(e)


def _drop_history(src, res):
    """The string-form entry points append a provenance note to the global
    attribute 'history'; it is not part of the result's content."""
    if res is not src:
        if hasattr(src, 'history'):
            res.history = src.history
        elif 'history' in res.ncattrs():
            delattr(res, 'history')
    return res


_TAILS = {}


def _tail_list(objs, ids, others):
    ent = _TAILS.get('cur')
    if ent is None or ent[0] is not objs:
        ent = _TAILS['cur'] = (objs, {})
    return ent[1].setdefault(tuple(ids), others)


_PATHS = {}      # id(disk-backed object) -> its path (reopen steps)


def call(objs, st, tmp):
    """Execute one step; returns the new object or None (queries)."""
    act, a = st['act'], st.get('args', {})
    f = objs[st['src'] - 1]
    others = [objs[i - 1] for i in st.get('others', [])]
    if act == 'copy':
        return f.copy()
    if act == 'slice' and a.get('via') == 'slice_dim':
        # the string form used by the command line tools: 'dim,start,stop,step'
        from PseudoNetCDF.core._functions import slice_dim
        sl = a['sels'][0]
        s_ = sl['s']
        if s_['k'] == 'int':
            sdef = '%s,%d' % (sl['d'], s_['v'])
        else:
            parts = [str(v) if h else 'None'
                     for h, v in zip(s_['h'], s_['v'])]
            sdef = '%s,%s' % (sl['d'], ','.join(parts))
        if 'fz' in a:       # the default of the command line: fuzzydim=True
            return _drop_history(f, slice_dim(f, sdef))
        return _drop_history(f, slice_dim(f, sdef, fuzzydim=False))
    if act == 'slice':
        kw = {}
        for s in a['sels']:
            kw[s['d']] = py_sel(s['s'])
        if a.get('alias'):      # the short method name
            return f.slice(newdims=(a['newdim'],), **kw)
        return f.sliceDimensions(newdims=(a['newdim'],), **kw)
    if act == 'apply' and a.get('via') == 'reduce_dim':
        # string form 'dim,function' of the command line tools
        from PseudoNetCDF.core._functions import reduce_dim
        fn = a['funcs'][0]
        if 'fz' in a:
            return _drop_history(f, reduce_dim(
                f, '%s,%s' % (fn['d'], fn['f']), metakeys=[]))
        return _drop_history(f, reduce_dim(f, '%s,%s' % (fn['d'], fn['f']),
                                           fuzzydim=False, metakeys=[]))
    if act == 'apply' and a.get('via') == 'convolve_dim':
        from PseudoNetCDF.core._functions import convolve_dim
        fn = a['funcs'][0]
        return _drop_history(f, convolve_dim(
            f, '%s,%s' % (fn['d'], CONVDEFS[fn['f']])))
    if act == 'apply':
        kw = {}
        for fn in a['funcs']:
            kw[fn['d']] = fn['f'] if fn['kind'] == 'reducer' \
                else CALLABLES[fn['f']]
        if a.get('alias'):
            return f.apply(**kw)
        return f.applyAlongDimensions(**kw)
    if act == 'interp':
        if a.get('argof'):
            # the new coordinate values are a VARIABLE of another file (as
            # in f.interpDimension('lev', g.variables['lev']))
            return f.interpDimension(
                a['d'], objs[a['argof'] - 1].variables[a['d']],
                extrapolate=bool(a['ex']))
        return f.interpDimension(a['d'], np.array(a['nxs'], dtype='d'),
                                 extrapolate=bool(a['ex']))
    if act == 'reopen':
        # the file written to disk and opened again: a disk-backed object
        # (what it presents is C07's business; it is an input of later steps)
        import PseudoNetCDF as pnc
        path = os.path.join(tmp, 'obj%d_%d.nc' % (len(objs), st.get('_n', 0)))
        o = f.save(path, format=a.get('format', 'NETCDF4_CLASSIC'), verbose=0)
        try:
            o.close()
        except Exception:
            pass
        g = pnc.pncopen(path, format='netcdf')
        _PATHS[id(g)] = path
        return g
    if act == 'stack' and a.get('via') in ('pncmfopen', 'open_mfdataset'):
        # the multi-file open helpers: paths in, stack() of the opened files out
        import PseudoNetCDF as pnc
        paths = [_PATHS[id(o)] for o in [f] + list(others)]
        if a['via'] == 'pncmfopen':
            return pnc.pncmfopen(paths, stackdim=a['dim'], format='netcdf')
        from PseudoNetCDF.core._files import netcdf
        if a.get('defaultdim'):     # the helper chooses the dimension
            return netcdf.open_mfdataset(*paths)
        return netcdf.open_mfdataset(*paths, stackdim=a['dim'])
    if act == 'stack':
        if a.get('via') == 'stack_files':
            # the module-level entry point (used by the command line tools)
            from PseudoNetCDF.core._functions import stack_files
            return stack_files([f] + list(others), a['dim'])
        if len(others) != 1 or a.get('aslist'):
            # a caller that stacks the same tail onto several heads passes the
            # same list object every time: one list per distinct tail, kept
            # for the whole program
            others = _tail_list(objs, st.get('others', []), others)
            return f.stack(others, a['dim'])
        return f.stack(others[0], a['dim'])
    if act == 'subset':
        if a.get('alias'):
            return f.subset(list(a['keys']), exclude=a['exclude'])
        return f.subsetVariables(list(a['keys']), exclude=a['exclude'])
    if act == 'renamevar':
        return f.renameVariable(a['old'], a['new'])
    if act == 'renamedim':
        return f.renameDimension(a['old'], a['new'])
    if act == 'renamedims':
        return f.renameDimensions(**{p['old']: p['new']
                                     for p in a['pairs']})
    if act == 'rmsingle':
        return f.removeSingleton(dimkey=a['d'] if a['h'] else None)
    if act == 'insertdim':
        kw = {'newonly': a['newonly'], 'multionly': a['multionly']}
        if a['pos'] == 'before':
            kw['before'] = a['ref']
        elif a['pos'] == 'after':
            kw['after'] = a['ref']
        kw[a['d']] = a['len']
        return f.insertDimension(**kw)
    if act == 'reorder':
        return f.reorderDimensions(tuple(a['old']), tuple(a['new']))
    if act == 'mask' and a.get('via') == 'mask_vals':
        # the string form 'condition,value' of the command line tools; it
        # works in place, so it is given a copy
        from PseudoNetCDF.core._functions import mask_vals
        g = f.copy()
        meta = [] if a['coords'] else [str(k) for k in f.getCoords()]
        mask_vals(g, '%s,%d' % (a['p'][0]['k'], a['p'][0]['v']),
                  metakeys=meta)
        return g
    if act == 'mask':
        kw = {p['k']: p['v'] for p in a['p']}
        if a['where']['h']:
            kw['where'] = np.array(a['where']['bits'], dtype=bool).reshape(
                a['where']['shape'])
        if a['usedims']['h']:
            kw['dims'] = tuple(a['usedims']['v'])
        kw['coords'] = a['coords']
        if 'fill' in a:     # the fill value held under the new mask
            kw['fill_value'] = float('nan') if a['fill'] == 'nan' \
                else a['fill']
        return f.mask(**kw)
    if act == 'arith':
        return getattr(f, PYOP[a['op']])(others[0])
    if act == 'eval':
        expr = '; '.join('%s = %s' % (x['name'], expr_str(x['e']))
                         for x in a['assign'])
        if a.get('via') == 'pncexpr':
            # the module-level form used by the command line tools
            from PseudoNetCDF.core._functions import pncexpr
            return pncexpr(expr, f)
        return f.eval(expr, copyall=a['copyall'])
    if act == 'writeall':
        for k in list(f.variables.keys()):
            v = f.variables[k]
            if v.size > 0:
                v[...] = 7
        return None
    if act == 'query':
        q = a['q']
        if q == 'repr':
            repr(f)
        elif q == 'dump':
            import io
            # (pncdump binds sys.stdout at import time and its exception
            # handler closes the output file and calls exit(): give it a
            # buffer of its own)
            f.dump(outfile=io.StringIO())
        elif q == 'getTimes':
            f.getTimes()
        elif q == 'getTimesBounds':
            f.getTimes(bounds=True)
        elif q == 'val2idx':
            f.val2idx(a['dim'], np.array(a['vals'], dtype='d'),
                      method=a['method'], bounds=a.get('bounds', 'warn'))
        elif q == 'time2idx':
            t = f.getTimes()
            f.time2idx(t, dim='time')
        elif q == 'date2num':
            f.date2num(f.getTimes())
        elif q == 'save':
            out = f.save(os.path.join(tmp, 'q%d.nc' % st['_n']), verbose=0)
            try:
                out.close()
            except Exception:
                pass
        elif q == 'ncattrs':
            [f.getncattr(k) for k in f.ncattrs()]
        elif q == 'getCoords':
            f.getCoords()
        else:
            raise ValueError(q)
        return None
    raise ValueError(act)


def _squared(f, d, fz):
    """Projection of file f with the variables that have dimension d (or one
    of its numbered variants, for the fuzzy string form) squared."""
    import re
    pj = project(f)
    for rec in pj['vars']:
        hit = [k for k in rec['dims'] if k == d or (
            fz is not None and k.startswith(d) and re.fullmatch(
                '[0-9]+', k[len(d):]))]
        if not hit:
            continue
        v = f.variables[rec['name']]
        arr = np.ma.asarray(v[...]).astype('d') ** 2
        from project import _cells
        rec['enc'], rec['cells'], rec['mask'] = _cells(arr, False)
        if rec['enc'] == 'rat':
            rec['cells'], rec['den'] = rec['cells']
    return pj


def execute(arg):
    """Run one program; returns the trace."""
    tid, prog, focus = arg
    import warnings
    warnings.simplefilter('ignore')
    tmp = scratch('coreq')
    try:
        objs = [template(t) for t in prog['templates']]
        last = [json.dumps(project(o), sort_keys=True) for o in objs]
        trace = {'tid': tid, 'templates': prog['templates'],
                 'init': [json.loads(x) for x in last], 'steps': []}
        for n, st in enumerate(prog['steps']):
            st = dict(st)
            st['_n'] = n
            # a step that names an object an earlier (failed) step did not
            # create ends the program
            if any(i < 1 or i > len(objs)
                   for i in [st['src']] + list(st.get('others', []))):
                break
            rec = {'act': st['act'], 'src': st['src'],
                   'others': st.get('others', []),
                   'args': st.get('args', {}),
                   'prop': PROP_OF.get(st['act'], 'C01'),
                   'res': 'ok', 'exc': '', 'new': 0}
            try:
                with np.errstate(all='ignore'):
                    new = call(objs, st, tmp)
                if new is not None:
                    objs.append(new)
                    last.append(None)
                    rec['new'] = len(objs)
                    # a standard deviation is decided through its square
                    fns = st.get('args', {}).get('funcs', [])
                    if st['act'] == 'apply' and len(fns) == 1 and \
                            fns[0]['f'] == 'std':
                        rec['sq'] = _squared(new, fns[0]['d'],
                                             st['args'].get('fz'))
            except (Exception, SystemExit) as ex:
                # (pncdump's exception handler calls exit())
                rec['res'] = 'raised'
                rec['exc'] = '%s: %s' % (type(ex).__name__, str(ex)[:120])
            post = []
            for i, o in enumerate(objs):
                try:
                    js = json.dumps(project(o), sort_keys=True)
                except Exception as ex:
                    js = json.dumps({'cls': type(o).__name__, 'dims': [],
                                     'vars': [], 'coords': [],
                                     'attrs': [{'k': '<projection raised>',
                                                'v': repr(ex)[:200],
                                                'ok': False}]})
                if js == last[i]:
                    post.append({'same': True})
                else:
                    post.append(json.loads(js))
                    last[i] = js
            rec['post'] = post
            trace['steps'].append(rec)
        return trace
    finally:
        shutil.rmtree(tmp, ignore_errors=True)


# ---------------------------------------------------------------------------
# structural shadow (only to generate sensible arguments: names and lengths)
# ---------------------------------------------------------------------------
class Shadow(object):
    """Dimension lengths and variable dimension tuples of a live object, as
    far as the generator needs them to pick arguments.  It is refreshed from
    a dry run, never used to judge results."""

    def __init__(self, f):
        self.dims = {k: len(d) for k, d in f.dimensions.items()}
        self.vars = {k: tuple(v.dimensions) for k, v in f.variables.items()}
        self.coords = list(f.getCoords())
        self.dt = {k: v.dtype.char for k, v in f.variables.items()}
        self.masked = {k: isinstance(v, np.ma.MaskedArray)
                       for k, v in f.variables.items()}
        # a variable naming one dimension twice (possible through
        # insertDimension) is outside what the string forms are written for
        self.dupdims = any(len(set(d)) != len(d) for d in self.vars.values())


def rsel(rnd, n, kinds=('int', 'slice', 'list')):
    k = rnd.choice(kinds)
    if k == 'bool':
        bits = [rnd.randint(0, 1) for _ in range(n)]
        if n > 0 and not any(bits):
            bits[rnd.randrange(n)] = 1
        return {'k': 'bool', 'v': bits}
    if k == 'int':
        s = {'k': 'int', 'v': rnd.randint(-n, n - 1) if n > 0 else 0}
        if rnd.random() < 0.3:
            s['np'] = True
        return s
    if k == 'list':
        m = rnd.randint(1, 3)
        return {'k': 'list', 'v': [rnd.randint(-n, n - 1) if n > 0 else 0
                                   for _ in range(m)]}
    h = [rnd.random() < 0.6 for _ in range(3)]
    v = [rnd.choice([-4, -2, -1, 0, 1, 2, 5]), rnd.choice([-4, -2, -1, 0, 1,
                                                           2, 5]),
         rnd.choice([1, 1, 2, -1, -2, 3])]
    v = [v[i] if h[i] else 0 for i in range(3)]
    return {'k': 'slice', 'h': h, 'v': v}


def gen_step(rnd, sh, src, shadows, focus=None, strict=False):
    """A random step; degenerate structures (no variable / dimension left)
    fall back to a plain copy."""
    try:
        st = _gen_step(rnd, sh, src, shadows, focus, strict)
        # the short method names slice / apply / subset are entry points too
        if st['act'] in ('slice', 'apply', 'subset') and \
                'via' not in st.get('args', {}) and rnd.random() < 0.3:
            st['args']['alias'] = True
        return st
    except (IndexError, ValueError, KeyError):
        return {'act': 'copy', 'src': src, 'others': [], 'args': {}}


def _gen_step(rnd, sh, src, shadows, focus=None, strict=False):
    """One random in-domain-ish step on object `src` (1-based)."""
    dims = list(sh.dims)
    acts = ['copy', 'slice', 'apply', 'stack', 'subset', 'renamevar',
            'renamedim', 'renamedims', 'rmsingle', 'insertdim', 'reorder',
            'mask', 'arith', 'eval', 'interp']
    act = focus if focus and (strict or rnd.random() < 0.7) \
        else rnd.choice(acts)
    st = {'act': act, 'src': src, 'others': [], 'args': {}}
    if act == 'interp':
        # interpolation along a dimension that has a 1-D coordinate variable
        cds = [d for d in sh.dims if d in sh.vars and sh.vars[d] == (d,)
               and sh.dims[d] >= 2]
        if not cds:
            raise ValueError('no coordinate variable')
        d = rnd.choice(cds)
        st['args'] = {'d': d, 'ex': rnd.random() < 0.5,
                      'nxs': [rnd.choice([0, 2, 4, 5, 8, 10, 12, 15, 16, 20,
                                          25, 30, 40, 45])
                              for _ in range(rnd.randint(1, 4))]}
        return st
    a = st['args']
    if act == 'slice':
        nd = rnd.randint(1, min(3, len(dims)))
        ds = rnd.sample(dims, nd)
        kinds = ('int', 'slice', 'list')
        a['sels'] = [{'d': d, 's': rsel(rnd, sh.dims[d], kinds)} for d in ds]
        # a boolean index array on one dimension (the others: integers/slices)
        if rnd.random() < 0.15 and sh.dims[ds[0]] > 0:
            a['sels'] = [{'d': d, 's': rsel(rnd, sh.dims[d], ('int', 'slice'))}
                         for d in ds]
            a['sels'][0]['s'] = rsel(rnd, sh.dims[ds[0]], ('bool',))
        # equal-length lists when several
        ls = [s for s in a['sels'] if s['s']['k'] == 'list']
        if len(ls) > 1:
            m = len(ls[0]['s']['v'])
            for s in ls[1:]:
                n = sh.dims[s['d']]
                s['s']['v'] = [rnd.randint(-n, n - 1) if n > 0 else 0
                               for _ in range(m)]
        a['newdim'] = 'POINTS'
        # the string form slice_dim(f, 'dim,start,stop,step') of a single
        # integer / slice selection
        if len(a['sels']) == 1 and a['sels'][0]['s']['k'] in ('int', 'slice') \
                and rnd.random() < 0.4:
            s0 = a['sels'][0]
            n0 = sh.dims[s0['d']]
            nonempty = s0['s']['k'] == 'int' or len(range(*py_sel(
                s0['s']).indices(n0))) > 0
            # (an empty selection is not what the form is for; the helpers
            # copy through Pseudo2NetCDF, which maps booleans - results of
            # comparisons - to a netCDF integer type by design)
            if nonempty and '?' not in getattr(sh, 'dt', {}).values() and not getattr(sh, 'dupdims', False):
                a['via'] = 'slice_dim'
                if rnd.random() < 0.7:
                    a['fz'] = fz_of(sh.dims)
    elif act == 'apply':
        nd = rnd.randint(1, min(3, len(dims)))
        ds = rnd.sample(dims, nd)
        fs = []
        # one reducer name for every chosen dimension (joint-axis shortcuts
        # are wrong for masked data and for interleaved min/max)
        same = rnd.choice(['mean', 'min', 'max', 'sum']) \
            if nd >= 2 and rnd.random() < 0.4 else None
        for d in ds:
            if same is not None and (nd < 3 or d != ds[1]):
                fs.append({'d': d, 'kind': 'reducer', 'f': same})
            elif same is not None:
                fs.append({'d': d, 'kind': 'reducer',
                           'f': {'min': 'max', 'max': 'min'}.get(same, same)})
            elif rnd.random() < 0.65:
                fs.append({'d': d, 'kind': 'reducer',
                           'f': rnd.choice(['sum', 'min', 'max', 'mean',
                                            'var', 'mean', 'sum'] +
                                           (['std', 'std'] if nd == 1
                                            else []))})
            else:
                fs.append({'d': d, 'kind': 'callable',
                           'f': rnd.choice(sorted(CALLABLES))})
        a['funcs'] = fs
        # the string forms reduce_dim / convolve_dim of a single function
        if len(fs) == 1 and rnd.random() < 0.35 and \
                '?' not in getattr(sh, 'dt', {}).values() and not getattr(sh, 'dupdims', False):
            if fs[0]['kind'] == 'reducer':
                a['via'] = 'reduce_dim'
                if rnd.random() < 0.7:
                    a['fz'] = fz_of(sh.dims)
            elif fs[0]['f'] in CONVDEFS:
                a['via'] = 'convolve_dim'
    elif act == 'stack':
        a['dim'] = rnd.choice(dims)
        k = rnd.randint(1, 2)
        # stack with objects of compatible structure (same template lineage)
        cands = [i + 1 for i, s2 in enumerate(shadows)
                 if s2.vars == sh.vars and
                 all(s2.dims.get(d) == sh.dims[d] for d in dims
                     if d != a['dim']) and set(s2.dims) == set(sh.dims)]
        st['others'] = [rnd.choice(cands) for _ in range(k)]
        a['aslist'] = rnd.random() < 0.5
        a['via'] = 'stack_files' if rnd.random() < 0.3 else 'method'
    elif act == 'subset':
        vs = list(sh.vars)
        a['keys'] = rnd.sample(vs, rnd.randint(1, len(vs)))
        a['exclude'] = rnd.random() < 0.3
        if a['exclude'] and len(a['keys']) == len(vs):
            a['keys'] = a['keys'][:-1] or a['keys']
    elif act == 'renamevar':
        a['old'] = rnd.choice(list(sh.vars))
        a['new'] = a['old'] + '_r'
    elif act == 'renamedim':
        a['old'] = rnd.choice(dims)
        a['new'] = a['old'] + 'r'
    elif act == 'renamedims':
        ds = rnd.sample(dims, rnd.randint(2, min(3, len(dims))))
        a['pairs'] = [{'old': d, 'new': d + 'q'} for d in ds]
    elif act == 'rmsingle':
        a['h'] = rnd.random() < 0.5
        a['d'] = rnd.choice(dims)
    elif act == 'insertdim':
        a['d'] = rnd.choice(['w', 'w', 'z2'] + dims[:1])
        a['len'] = sh.dims.get(a['d'], rnd.choice([1, 2]))
        a['newonly'] = rnd.random() < 0.8
        a['multionly'] = rnd.random() < 0.3
        a['pos'] = rnd.choice(['none', 'before', 'after'])
        a['ref'] = rnd.choice(dims)
    elif act == 'reorder':
        k = rnd.randint(2, min(3, len(dims))) if len(dims) > 1 else 1
        old = rnd.sample(dims, k)
        new = old[:]
        rnd.shuffle(new)
        a['old'], a['new'] = old, new
    elif act == 'mask':
        ps = rnd.sample(['less', 'less_equal', 'greater', 'greater_equal',
                         'values', 'equal'], rnd.randint(0, 2))
        a['p'] = [{'k': p, 'v': rnd.choice([0, 1, 102, 111, 131, 205, 303,
                                            402, 441, 505])} for p in ps]
        a['where'] = {'h': False, 'shape': [], 'bits': []}
        a['usedims'] = {'h': False, 'v': []}
        if rnd.random() < 0.5:
            vk = rnd.choice(list(sh.vars))
            shape = [sh.dims[d] for d in sh.vars[vk]]
            n = int(np.prod(shape)) if shape else 1
            a['where'] = {'h': True, 'shape': shape,
                          'bits': [rnd.randint(0, 1) for _ in range(n)]}
            if rnd.random() < 0.5:
                a['usedims'] = {'h': True, 'v': list(sh.vars[vk])}
        a['coords'] = rnd.random() < 0.3
        if len(a['p']) == 1 and not a['where']['h'] and rnd.random() < 0.5:
            a['via'] = 'mask_vals'
    elif act == 'arith':
        a['op'] = rnd.choice(sorted(PYOP))
        cands = [i + 1 for i, s2 in enumerate(shadows)
                 if s2.vars == sh.vars and s2.dims == sh.dims]
        st['others'] = [rnd.choice(cands)]
    elif act == 'eval':
        groups = {}
        for k, dd in sh.vars.items():
            if k not in sh.coords:
                groups.setdefault(dd, []).append(k)
        if not groups:
            st['act'] = 'copy'
            return st
        dd0 = rnd.choice(sorted(groups))
        vs = list(groups[dd0])
        if rnd.random() < 0.35:
            # operands that broadcast: variables on trailing dimensions
            for dd, ks in sorted(groups.items()):
                if 0 < len(dd) < len(dd0) and dd == dd0[len(dd0) - len(dd):]:
                    vs += ks

        def rexpr(depth):
            r = rnd.random()
            if depth == 0 or r < 0.3:
                return {'t': 'var', 'k': rnd.choice(vs)}
            if r < 0.45:
                return {'t': 'bin', 'op': rnd.choice(['+', '-', '*']),
                        'l': rexpr(depth - 1),
                        'r': {'t': 'int', 'v': rnd.randint(-3, 9)}}
            if r < 0.8:
                return {'t': 'bin', 'op': rnd.choice(['+', '-', '*', '>',
                                                      '<=', '==']),
                        'l': rexpr(depth - 1), 'r': rexpr(depth - 1)}
            return {'t': 'where',
                    'c': {'t': 'bin', 'op': rnd.choice(['>', '<', '>=']),
                          'l': rexpr(0),
                          'r': {'t': 'int',
                                'v': rnd.choice([102, 131, 205, 303, 402])}},
                    'x': rexpr(depth - 1), 'y': rexpr(depth - 1)}
        a['assign'] = [{'name': 'NEW%d' % i, 'e': rexpr(2)}
                       for i in range(rnd.randint(1, 2))]
        # the plain-array view of an unmasked variable (np.asarray(A)): the
        # same values, but eval receives an ndarray instead of a variable
        plain = [k for k in vs
                 if not getattr(sh, 'masked', {}).get(k, True)]
        if plain and rnd.random() < 0.2:
            a['assign'][0]['e'] = {'t': 'asarr', 'e': {
                't': 'var', 'k': rnd.choice(plain)}}
        a['copyall'] = rnd.random() < 0.5
        # pncexpr(expr, file): all variables are kept
        if a['copyall'] and rnd.random() < 0.4:
            a['via'] = 'pncexpr'
    return st


QUERIES = [{'q': 'repr'}, {'q': 'dump'}, {'q': 'getTimes'},
           {'q': 'getTimesBounds'}, {'q': 'time2idx'}, {'q': 'date2num'},
           {'q': 'save'}, {'q': 'ncattrs'}, {'q': 'getCoords'}]


def gen_program(rnd, depth, focus=None, isolation=False, templates=None,
                disk=False):
    """Generates a program by dry-running it (the dry run supplies the
    structure needed to choose later arguments)."""
    import warnings
    warnings.simplefilter('ignore')
    tps = [rnd.choice(templates or TEMPLATES)]
    objs = [template(t) for t in tps]
    # a second object of the same template so that stack/arith have partners
    tps.append(tps[0])
    objs.append(template(tps[0]))
    steps = []
    share = []      # classes of objects that wrap each other's variables
    tmp = scratch('gen')
    try:
        if disk:
            # a disk-backed receiver: the first template written to netCDF and
            # opened again; most later calls are made on it
            st = {'act': 'reopen', 'src': 1, 'others': [], 'args': {
                'format': rnd.choice(['NETCDF4_CLASSIC', 'NETCDF3_CLASSIC',
                                      'NETCDF4'])}, '_n': -1}
            try:
                objs.append(call(objs, st, tmp))
                steps.append({k: v for k, v in st.items() if k != '_n'})
            except Exception:
                disk = False
        for n in range(depth):
            shadows = [Shadow(o) for o in objs]
            src = rnd.randint(1, len(objs))
            if disk and rnd.random() < 0.75:
                src = 3
            if isolation and rnd.random() < (0.5 if disk else 0.3):
                q = dict(rnd.choice(QUERIES))
                sh = shadows[src - 1]
                if rnd.random() < 0.35:
                    cds = [d for d in sh.dims if d in sh.vars and
                           sh.vars[d] == (d,) and sh.dims[d] >= 2]
                    if cds:
                        d = rnd.choice(cds)
                        q = {'q': 'val2idx', 'dim': d,
                             'vals': [rnd.choice([0, 5, 10, 12, 15, 20, 30,
                                                  40])
                                      for _ in range(rnd.randint(1, 3))],
                             'method': rnd.choice(['nearest', 'bounds']),
                             'bounds': rnd.choice(['warn', 'ignore'])}
                st = {'act': 'query', 'src': src, 'others': [], 'args': q}
            else:
                st = gen_step(rnd, shadows[src - 1], src, shadows, focus)
            if st['act'] == 'eval' and st['args'].get('assign') and \
                    rnd.random() < (0.3 if isolation else 0.1):
                # (the value is outside what the model specifies: the call
                # raises or the result is well-formed, and nothing is shared)
                ks = [k for k, dd in shadows[src - 1].vars.items()
                      if len(dd) >= 1 and k not in shadows[src - 1].coords]
                if ks:
                    k = rnd.choice(ks)
                    hows = ['first', 'tail', 'every2', 'all']
                    if shadows[src - 1].masked.get(k) and \
                            type(objs[src - 1].variables[k]).__module__ \
                            .startswith('PseudoNetCDF'):
                        # the bare masked-array view of a masked variable
                        hows += ['marr', 'marr', 'marr']
                    st['args']['assign'][0]['e'] = {
                        't': 'part', 'how': rnd.choice(hows),
                        'e': {'t': 'var', 'k': k}}
            if st['act'] == 'interp' and rnd.random() < 0.5:
                # the target levels are the coordinate variable of a file
                d = st['args']['d']
                cands = []
                for i, o in enumerate(objs):
                    v = o.variables.get(d) if hasattr(o.variables, 'get') \
                        else None
                    if v is not None and tuple(v.dimensions) == (d,) and \
                            type(v).__module__.startswith('PseudoNetCDF'):
                        vals = np.ma.filled(np.asarray(v[...], dtype='d'),
                                            np.nan)
                        if vals.size >= 1 and np.isfinite(vals).all() and \
                                (vals == np.round(vals)).all() and \
                                not isinstance(v[...], np.ma.MaskedArray):
                            cands.append((i + 1, [int(x) for x in vals]))
                if cands:
                    o, vals = rnd.choice(cands)
                    st['args']['argof'] = o
                    st['args']['nxs'] = vals
            st['_n'] = n
            try:
                with np.errstate(all='ignore'):
                    new = call(objs, st, tmp)
                if new is not None:
                    objs.append(new)
                    # objects that share variables by construction: pncexpr
                    # wraps its input (classes of the "wraps" relation)
                    if st['args'].get('via') == 'pncexpr':
                        comp = [c for c in share if st['src'] in c]
                        if comp:
                            comp[0].add(len(objs))
                        else:
                            share.append({st['src'], len(objs)})
                    if isolation and rnd.random() < 0.6:
                        steps.append({k: v for k, v in st.items()
                                      if k != '_n'})
                        w = {'act': 'writeall', 'src': len(objs),
                             'others': [],
                             'args': {'derived': {
                                 'act': st['act'], 'src': st['src'],
                                 'via': st['args'].get('via', 'method'),
                                 'wraps': sorted(set().union(*(
                                     [c for c in share if len(objs) in c]
                                     or [set()])) - {len(objs)})}}}
                        call(objs, w, tmp)
                        steps.append(w)
                        continue
            except (Exception, SystemExit):
                pass
            steps.append({k: v for k, v in st.items() if k != '_n'})
    finally:
        shutil.rmtree(tmp, ignore_errors=True)
    return {'templates': tps, 'steps': steps}


def _gen_disk_program(arg):
    sd, depth, isolation, templates = arg
    return gen_program(random.Random(sd), depth, isolation=isolation,
                       templates=templates, disk=True)


def gen_disk_programs(rnd, n, depths, isolation, templates):
    """Programs with a disk-backed receiver are generated (dry-run) in forked
    children: the parent process of a check never touches the netCDF library,
    so a fault there cannot end the check without a verdict."""
    args = [(rnd.randrange(1 << 30), rnd.choice(depths), isolation, templates)
            for _ in range(n)]
    res = run_cases(_gen_disk_program, args, timeout=120, per_child=1)
    return [p for p in res if isinstance(p, dict) and 'steps' in p]


def nontrivial_key(tr):
    """(template, action sequence with argument classes) of a trace."""
    def cls(st):
        a = st['args']
        if st['act'] == 'slice':
            return ('slice',) + tuple(sorted((s['d'], s['s']['k'])
                                             for s in a['sels']))
        if st['act'] == 'apply':
            return ('apply',) + tuple(sorted((f['d'], f['f'])
                                             for f in a['funcs']))
        if st['act'] == 'arith':
            return ('arith', a['op'])
        if st['act'] == 'query':
            return ('query', a['q'])
        return (st['act'],)
    return (tr['templates'][0],) + tuple(cls(s) for s in tr['steps'])


def run_programs(out, progs, enforce, label, focus=None, prop='*'):
    """Execute programs on the library and validate the traces."""
    args = [(i + 1, p, focus) for i, p in enumerate(progs)]
    res = run_cases(execute, args, timeout=60, per_child=50, chunksize=10)
    traces = []
    for a, t in zip(args, res):
        if '_crash' in t or '_hang' in t:
            raise Machinery('program execution failed: %r\n%r' % (a[1], t))
        traces.append(t)
    out.cov['evaluations'] += sum(len(t['steps']) for t in traces)
    keys = set()
    for t in traces:
        if any(s['res'] == 'ok' and s['new'] for s in t['steps']):
            keys.add(nontrivial_key(t))
    out.cov['distinct_nontrivial'] += len(keys)
    for t in traces[:3]:
        out.sample({'templates': t['templates'],
                    'program': [{'act': s['act'], 'src': s['src'],
                                 'others': s['others'], 'args': s['args'],
                                 'res': s['res']} for s in t['steps']]})
    env = {'PNC_E_WF': '1' if 'wf' in enforce else '0',
           'PNC_E_ISO': '1' if 'iso' in enforce else '0',
           'PNC_E_VAL': '1' if 'val' in enforce else '0',
           'PNC_E_PROP': prop}
    # one shard per core (a TLC start costs about a second)
    shard = max(30, (len(traces) + 15) // 16)
    verdicts = validate_traces('PncCore_Trace', traces, out, shard=shard,
                               env=env, label=label, timeout=1500)
    settle(out, traces, verdicts, None)
    return traces


def run_isolation(out, tier):
    """C05 part 1: every call leaves the receiver, the arguments and every
    other live object unchanged; writing into a result never shows in the
    file it was derived from."""
    rnd = random.Random(seed() * 7919 + 5)
    n = 500 if tier == 'quick' else 5000
    progs = [gen_program(rnd, rnd.choice([2, 3, 4]), isolation=True,
                         templates=TEMPLATES + ['T6', 'T8'])
             for _ in range(n)]
    # mask(invalid=True) in a share of the mask steps (outside the value
    # model; the isolation clause does not need the expected result)
    for p in progs:
        for st in p['steps']:
            if st['act'] == 'mask' and rnd.random() < 0.5:
                st['args']['p'] = [q for q in st['args']['p']
                                   if rnd.random() < 0.3] + \
                    [{'k': 'invalid', 'v': True}]
    # views of a masked variable assigned by eval, then written into
    for t, k in (('T2', 'M'), ('T4', 'G'), ('T7', 'F'), ('T10', 'DATEM')):
        for how in ('marr', 'all'):
            progs.append({'templates': [t, t], 'steps': [
                {'act': 'eval', 'src': 1, 'others': [], 'args': {
                    'assign': [{'name': 'NEW0', 'e': {
                        't': 'part', 'how': how,
                        'e': {'t': 'var', 'k': k}}}],
                    'copyall': how == 'all'}},
                {'act': 'writeall', 'src': 3, 'others': [], 'args': {
                    'derived': {'act': 'eval', 'src': 1, 'via': 'method',
                                'wraps': []}}}]})
    progs += interp_argument_programs()
    # disk-backed receivers (netCDF handles keep reader state of their own)
    nd = 150 if tier == 'quick' else 1500
    progs += gen_disk_programs(rnd, nd, [2, 3, 4], True,
                               ['T1', 'T2', 'T4', 'T5', 'T7'])
    run_programs(out, progs, {'iso'}, 'C05-heap', prop='-')


def interp_argument_programs():
    """The target levels of an interpolation are the coordinate VARIABLE of
    another file (double precision) and reach beyond the source's range: the
    argument is an object like any other - the call leaves it as it is (C05),
    and a second interpolation to the same levels gives the values at those
    levels (C17)."""
    progs = []

    def sl(a, b):
        return {'k': 'slice', 'h': [a is not None, b is not None, False],
                'v': [a or 0, b or 0, 0]}
    for t, d, vals in (('T1', 'x', [10, 20, 30]), ('T5', 'time', [0, 6, 12, 18])):
        for lo, hi in ((1, None), (None, -1), (1, -1) if len(vals) > 3
                       else (1, None)):
            for ex in (False, True):
                progs.append({'templates': [t, t], 'steps': [
                    {'act': 'slice', 'src': 1, 'others': [], 'args': {
                        'sels': [{'d': d, 's': sl(lo, hi)}],
                        'newdim': 'POINTS'}},
                    {'act': 'interp', 'src': 3, 'others': [], 'args': {
                        'd': d, 'ex': ex, 'nxs': vals, 'argof': 2}},
                    {'act': 'interp', 'src': 1, 'others': [], 'args': {
                        'd': d, 'ex': ex, 'nxs': vals, 'argof': 2}}]})
    return progs


MC_ACTS = {'C01': None, 'C02': {'slice'}, 'C03': {'apply'}, 'C04': {'stack'},
           'C06': {'arith', 'mask'}, 'C05': None}


def mc_programs(out, prop, tier):
    """Model-check the bounded PncCore machine (design-level invariants of
    `prop`) and return the emitted programs whose last step concerns `prop`."""
    progs = []
    depth = 1 if tier == 'quick' else 2
    cfgp = 'PncCore_MC_%s.cfg' % (prop if prop != 'C05' else 'C01')

    def one(tmpl):
        env = {'PNC_DEPTH': depth, 'PNC_LAWDEPTH': 1, 'PNC_EMIT': '1',
               'PNC_TEMPLATE': tmpl}
        return run_tlc('PncCore_MC', cfg=cfgp, workers=max(1, NCPU_MC // 2),
                       timeout=3000, env=env, heap='8g')
    import concurrent.futures as cf
    with cf.ThreadPoolExecutor(max_workers=2) as ex:
        results = list(ex.map(one, ('M1', 'M2')))
    for tmpl, r in zip(('M1', 'M2'), results):
        r = need_ok(r, 'PncCore_MC %s %s' % (prop, tmpl))
        out.add_tlc('PncCore_MC(%s) template %s depth %d' % (prop, tmpl,
                                                            depth), r,
                    'invariants of %s' % cfgp)
        if r.violated:
            out.model_violation(r, 'PncCore_MC %s' % tmpl)
        want = MC_ACTS[prop]
        for p in r.prints:
            if isinstance(p, dict) and 'steps' in p:
                if want is None or p['steps'][-1]['act'] in want:
                    progs.append({'templates': [p['template']],
                                  'steps': p['steps']})
    if not progs:
        raise Machinery('PncCore_MC emitted no program for %s' % prop)
    return progs
