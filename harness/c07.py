"""C07: saving to netCDF and reopening reproduces the file.

spec/NcStore.tla: the fill-value mechanism (NcStore_MC: the mask survives for
every attribute configuration under the specified data fill, and TLC exhibits
the losing configuration under the deviation) and StoreDiff, the field-by-field
meaning of "reproduces".  Generated files are saved in every flavour, closed,
reopened and validated by NcStore_Trace.  One process per case."""
import os
import random
import shutil
import sys

import numpy as np

from common import (unique, Outcome, Machinery, run_tlc, need_ok, run_cases, scratch,
                    validate_traces, settle, seed, main_wrap)
from project import project

PROP = 'C07'
FLAVOURS = ['NETCDF3_CLASSIC', 'NETCDF3_64BIT_OFFSET', 'NETCDF4_CLASSIC',
            'NETCDF4']
DTYPES = ['f', 'd', 'i', 'h', 'b', 'B', 'H', 'I', 'q', 'Q', 'c']


def fills(dt):
    if dt in 'fd':
        return -999.5, -888.25
    if dt in 'BHIQ':
        return 250, 240
    return -99, -77


def build(cs):
    import PseudoNetCDF as pnc
    f = pnc.PseudoNetCDFFile()
    ud = cs['unlim']
    dims = [('t', 2), ('y', 2), ('x', 3)]
    if ud == 'notfirst':
        dims = [('y', 2), ('t', 2), ('x', 3)]
    for n, ln in dims:
        d = f.createDimension(n, ln)
        if n == 't' and ud not in ('none', 'ytwo'):
            d.setunlimited(True)
        if n == 'y' and ud in ('two', 'ytwo'):  # a second / another unlimited dimension
            d.setunlimited(True)
    f.createDimension('nc', 4)
    dt = cs['dt']
    a, b = fills(dt)
    if cs.get('zero'):
        a = 0       # a fill value that is false in a boolean context
    sel = {0: None, 1: a, 2: b}
    vdims = {'scalar': (), '1d': ('x',), '2d': ('t', 'x'),
             '3d': ('t', 'y', 'x')}[cs['rank']]
    shape = tuple(dict(dims)[d] for d in vdims)
    n = int(np.prod(shape)) if shape else 1
    if dt == 'c':
        v = f.createVariable('V', 'c', ('x', 'nc'))
        v[:] = np.array([list('abcd'), list('efgh'), list('ij k')], 'S1')
    else:
        fc = cs['fill']
        masked = cs['masked'] != 'no'
        if dt in 'fd':
            base = (np.arange(n) * 0.1 + 1.7).astype(dt)
            if n > 1:
                # (-0.0 equals a fill value of 0)
                base[1] = -0.0 if not cs.get('zero') else 0.5
            if n > 2:
                base[2] = 1e-40 if dt == 'f' else 5e-320   # denormal
            if cs.get('nf') and n > 5:
                # non-finite values are values: unmasked ones come back as
                # they are (cells 3 and 5 are never masked below)
                base[3], base[4], base[5] = np.inf, -np.inf, np.nan
        else:
            base = (np.arange(n) + 3).astype(dt)
        base = base.reshape(shape)
        if masked:
            m = np.zeros(n, bool)
            if cs['masked'] == 'all':
                m[:] = True
            else:
                m[::2] = True
            vals = np.ma.masked_array(base, mask=m.reshape(shape))
            # exactly the fill attributes of this configuration
            kw = {}
            if fc['mv']:
                kw['missing_value'] = np.array(sel[fc['mv']], dt)[()]
            if fc['fv']:
                kw['fill_value'] = np.array(sel[fc['fv']], dt)[()]
            if fc['ufv']:
                kw['_FillValue'] = np.array(sel[fc['ufv']], dt)[()]
            v = f.createVariable('V', dt, vdims, values=vals, **kw)
        else:
            v = f.createVariable('V', dt, vdims)
            v[...] = base
        v.units = 'ppb'
        v.scale = 2.5
        v.levels = np.array([1, 2, 3], 'i')
    # an unlimited dimension has the length of the data written along it: it
    # needs at least one variable
    # (cs['nott']: the fully masked V is the only variable along it - its
    # fill values are data written along the dimension like any other)
    if not cs.get('nott'):
        tt = f.createVariable('tt', 'i', ('t',))
        tt[:] = [11, 12]
    c = f.createVariable('x', 'd', ('x',))
    c[:] = [0.1, 0.2, 0.30000000000000004]
    c.units = 'm'
    s = f.createVariable('S0', 'f', ())
    s[...] = 2.5
    f.title = 'case %d' % cs['tid']
    # empty strings are attribute values too
    f.comment = ''
    c.long_name = ''
    f.nint = np.int32(7)
    if cs.get('flavour') == 'NETCDF4':
        # Python integers beyond 32 bits are attribute values too (only the
        # NETCDF4 flavour has a 64-bit integer type)
        f.created_ms = 1727400000000
        f.nbytes = 2 ** 31
    f.rflt = 3.25
    f.iarr = np.array([4, 5, 6], 'i')
    f.farr = np.array([0.5, 0.25], 'd')
    return f


def run_case(cs):
    import warnings
    warnings.simplefilter('ignore')
    import PseudoNetCDF as pnc
    tmp = scratch('c07')
    tr = {'tid': cs['tid'], 'cfg': {k: cs[k] for k in cs if k != 'tid'},
          'flavour': cs['flavour'], 'res': 'ok', 'exc': ''}
    try:
        f = build(cs)
        tr['orig'] = project(f, exact=True)
        path = os.path.join(tmp, 'c%d.nc' % cs['tid'])
        try:
            out = f.save(path, format=cs['flavour'], complevel=cs['comp'],
                         verbose=0)
            out.close()
        except Exception as ex:
            tr['res'] = 'raised'
            tr['exc'] = '%s: %s' % (type(ex).__name__, str(ex)[:100])
            return tr
        g = pnc.pncopen(path, format='netcdf')
        tr['reopened'] = project(g, exact=True)
        g.close()
        h = pnc.pncopen(path)
        tr['reopened_auto'] = project(h, exact=True)
        tr['autocls'] = type(h).__name__
        h.close()
        return tr
    finally:
        shutil.rmtree(tmp, ignore_errors=True)


def run_history(seq):
    """Several saves in ONE process, in order (spec/NcSession.tla): every save
    is validated like a single one - what is stored depends on the file only."""
    return [run_case(cs) for cs in seq]


def gen_cases(rnd, tier, fillcfgs):
    cases = []
    # every fill configuration for masked float / int variables
    for fc in fillcfgs:
        for dt in ('f', 'i') if tier == 'quick' else ('f', 'd', 'i', 'h', 'b'):
            for masked in ('some', 'all'):
                cases.append({'dt': dt, 'masked': masked, 'fill': fc,
                              'rank': rnd.choice(['1d', '2d', '3d']),
                              'unlim': rnd.choice(['none', 'first',
                                                   'notfirst']),
                              'flavour': rnd.choice(FLAVOURS),
                              'comp': rnd.choice([0, 1])})
    # dtype x flavour x rank x unlimited grid
    grid = [(dt, fl, rk, ud) for dt in DTYPES for fl in FLAVOURS
            for rk in ('scalar', '1d', '2d', '3d')
            for ud in ('none', 'first', 'notfirst')]
    if tier == 'quick':
        grid = rnd.sample(grid, 120)
    for dt, fl, rk, ud in grid:
        cases.append({'dt': dt, 'masked': rnd.choice(['no', 'no', 'some']),
                      'fill': rnd.choice(fillcfgs), 'rank': rk, 'unlim': ud,
                      'flavour': fl, 'comp': rnd.choice([0, 1])})
    # two unlimited dimensions (representable in NETCDF4 only)
    # (3-D variables only: an unlimited dimension no variable uses has no
    # length in a netCDF file)
    for dt in ('f', 'i', 'd', 'h'):
        for rk in ('3d',):
            for comp in (0, 1):
                cases.append({'dt': dt, 'masked': rnd.choice(['no', 'some']),
                              'fill': rnd.choice(fillcfgs), 'rank': rk,
                              'unlim': 'two', 'flavour': 'NETCDF4',
                              'comp': comp})
    # the same with 0 as the first fill value (a third of the masked cases)
    for c in cases:
        c['zero'] = bool(c['masked'] != 'no' and c['dt'] != 'c' and
                         rnd.random() < 0.34)
    # non-finite values in unmasked cells of half of the float cases that
    # have room for them (six or more cells)
    extra = []
    for c in cases:
        if c['dt'] in 'fd' and c['rank'] in ('2d', '3d'):
            if c['masked'] == 'some':
                d = dict(c)
                d['nf'] = True
                extra.append(d)
            else:
                c['nf'] = rnd.random() < 0.5
    cases += extra
    # a fully masked variable as the only variable along the unlimited
    # dimension
    extra = []
    for c in cases:
        if c['masked'] == 'all' and c['rank'] in ('2d', '3d') and \
                c['unlim'] in ('first', 'notfirst'):
            extra.append(dict(c, nott=True))
    for dt in ('f', 'i'):
        for fl in FLAVOURS:
            extra.append({'dt': dt, 'masked': 'all',
                          'fill': rnd.choice(fillcfgs), 'rank': '2d',
                          'unlim': 'first', 'flavour': fl, 'comp': 0,
                          'zero': False, 'nott': True})
    cases += extra
    for i, c in enumerate(cases):
        c['tid'] = i + 1
    return cases


def run(tier):
    out = Outcome(PROP, tier)
    rnd = random.Random(seed() * 7919 + 7)
    r = need_ok(run_tlc('NcStore_MC', workers=1, timeout=300,
                        env={'PNC_DEV': '0', 'PNC_EMIT': '1'}), 'NcStore_MC')
    out.add_tlc('NcStore_MC: mask survives for all 27 fill-attribute '
                'configurations (specified data fill)', r)
    if r.violated:
        out.model_violation(r, 'NcStore_MC')
    r2 = need_ok(run_tlc('NcStore_MC', workers=1, timeout=300,
                         env={'PNC_DEV': '1', 'PNC_EMIT': '0'}),
                 'NcStore_MC dev')
    out.add_tlc('NcStore_MC with the attribute-first data fill (sharpness)',
                r2, 'must violate: %s' % r2.violated)
    if not r2.violated:
        raise Machinery('NcStore invariant is not sharp')
    fillcfgs = unique([p for p in r.prints
                       if isinstance(p, dict) and 'mv' in p])
    if len(fillcfgs) != 27:
        raise Machinery('expected 27 fill configurations, got %d'
                        % len(fillcfgs))
    cases = gen_cases(rnd, tier, fillcfgs)
    res = run_cases(run_case, cases, timeout=120, per_child=1)
    traces = []
    for c, t in zip(cases, res):
        if '_crash' in t or '_hang' in t:
            raise Machinery('save/reopen case failed: %r %r' % (c, t))
        traces.append(t)
    # histories: several saves in one process (NcSession: HistoryFree)
    r3 = need_ok(run_tlc('NcSession_MC', workers=1, timeout=300,
                         env={'PNC_DEV': 'none', 'PNC_EMIT': '1'}),
                 'NcSession_MC')
    out.add_tlc('NcSession_MC: what is stored depends on the file only, over '
                'all save histories of 3 files', r3)
    if r3.violated:
        out.model_violation(r3, 'NcSession_MC')
    r4 = need_ok(run_tlc('NcSession_MC', workers=1, timeout=300,
                         env={'PNC_DEV': 'unlim', 'PNC_EMIT': '0'}),
                 'NcSession_MC dev')
    out.add_tlc('NcSession_MC with a writer that remembers record dimensions '
                '(sharpness)', r4, 'must violate: %s' % r4.violated)
    if not r4.violated:
        raise Machinery('NcSession invariant is not sharp')
    if tier != 'quick':
        # histories of ANY length: Apalache discharges the inductive invariant
        # of NcSession (base case, step, invariant => HistoryFree)
        import subprocess
        pr = subprocess.run([os.path.join(os.path.dirname(os.path.dirname(
            os.path.abspath(__file__))), 'tools', 'apalache_ncsession.sh')],
            stdout=subprocess.PIPE, stderr=subprocess.STDOUT, timeout=2400)
        txt = pr.stdout.decode('utf-8', 'replace')
        out.cov['apalache_ncsession'] = txt.strip().split('\n')[-3:]
        if pr.returncode == 1:
            out.violation('Apalache: the inductive invariant of NcSession '
                          'fails', {'kind': 'model', 'tail': txt[-2000:]})
        elif pr.returncode != 0:
            raise Machinery('apalache_ncsession.sh failed:\n' + txt[-1500:])
    hists = unique([p['hist'] for p in r3.prints
                    if isinstance(p, dict) and 'hist' in p])
    if len(hists) != 64:
        raise Machinery('expected 64 save histories, got %d' % len(hists))
    if tier == 'quick':
        hists = rnd.sample(hists, 24)
    seqs = []
    tid = len(cases)
    for h in hists:
        seq = []
        for u in h:
            tid += 1
            two = sorted(u) == ['t', 'y']
            seq.append({'dt': rnd.choice(['f', 'i', 'd']),
                        'masked': rnd.choice(['no', 'some']),
                        'fill': rnd.choice(fillcfgs), 'rank': '3d',
                        'unlim': 'two' if two else
                        ('first' if u == ['t'] else
                         ('ytwo' if u == ['y'] else 'none')),
                        'flavour': 'NETCDF4' if (two or u == ['y'])
                        else rnd.choice(FLAVOURS),
                        'comp': rnd.choice([0, 1]), 'zero': False,
                        'tid': tid, 'inhistory': True})
        seqs.append(seq)
    hres = run_cases(run_history, seqs, timeout=300, per_child=1)
    for sq, ts in zip(seqs, hres):
        if isinstance(ts, dict):
            raise Machinery('save history failed: %r %r' % (sq, ts))
        traces.extend(ts)
    out.cov['save_histories'] = len(seqs)
    out.cov['evaluations'] = len(traces)
    out.cov['saved_ok'] = sum(1 for t in traces if t['res'] == 'ok')
    out.cov['distinct_nontrivial'] = len(set(
        (str(sorted(t['cfg'].items()))) for t in traces if t['res'] == 'ok'))
    out.cov['rule'] = ('a case is one (dtype, masked?, fill-attribute '
                       'configuration, rank, unlimited placement, flavour, '
                       'compression); non-trivial = the save completed; '
                       'distinct = different configuration')
    for t in traces[:2]:
        out.sample({'cfg': t['cfg'], 'res': t['res'], 'exc': t['exc']})
    verdicts = validate_traces('NcStore_Trace', traces, out, shard=400)
    settle(out, traces, verdicts, None)
    out.assumptions = [
        'a masked variable comes back with a _FillValue attribute (the '
        'persistence encoding of the mask); attributes are compared modulo '
        'that name on masked variables',
        'an unmasked value equal to the fill value would read back masked '
        '(inherent to netCDF): generated data avoid the fill values',
        'HDF5 internals, chunking and compression ratios are out of reach']
    return out.finish()


if __name__ == '__main__':
    tier = sys.argv[sys.argv.index('--tier') + 1] if '--tier' in sys.argv else 'quick'
    main_wrap(lambda: run(tier))
