"""Shared entry for the PncCore-based checks C01-C04, C06 (C05 adds handles)."""
import random
import sys
from common import Outcome, main_wrap, seed
import core_driver as cd

CFG = {
    'C01': dict(focus=None, enforce={'wf'}, prop='*', depths=[2, 3, 3, 4],
                n=(700, 8000)),
    'C02': dict(focus='slice', enforce={'val'}, prop='C02', depths=[1, 1, 2],
                n=(800, 10000)),
    'C03': dict(focus='apply', enforce={'val'}, prop='C03', depths=[1, 1, 2],
                n=(450, 8000)),
    'C04': dict(focus='stack', enforce={'val'}, prop='C04', depths=[1, 2, 3],
                n=(600, 6000)),
    'C06': dict(focus=None, enforce={'val'}, prop='C06', depths=[1, 1, 2],
                n=(800, 8000)),
}


def hetero_stacks(rnd, tier):
    """C04: stacks of files whose non-stack variables differ (a permuted or
    masked copy of the same template) in every argument order."""
    progs = []
    n = 150 if tier == 'quick' else 1500
    dims = {'T1': ['t', 'y', 'x'], 'T2': ['t', 'x'], 'T3': ['y', 't', 'x'],
            'T4': ['t', 'y', 'x'], 'T5': ['time', 'lev']}
    for i in range(n):
        t = rnd.choice(sorted(dims))
        d1, d2 = rnd.sample(dims[t], 2)
        rev = {'k': 'slice', 'h': [False, False, True], 'v': [0, 0, -1]}
        steps = [{'act': 'slice', 'src': 1, 'others': [],
                  'args': {'sels': [{'d': d1, 's': rev}],
                           'newdim': 'POINTS'}}]
        if rnd.random() < 0.4:
            steps.append({'act': 'mask', 'src': 2, 'others': [], 'args': {
                'p': [{'k': 'greater', 'v': rnd.choice([15, 105, 305, 405])}],
                'where': {'h': False, 'shape': [], 'bits': []},
                'usedims': {'h': False, 'v': []}, 'coords': True}})
        nobj = 2 + len(steps)
        k = rnd.randint(1, 2)
        src = rnd.randint(1, nobj)
        steps.append({'act': 'stack', 'src': src,
                      'others': [rnd.randint(1, nobj) for _ in range(k)],
                      'args': {'dim': d2, 'aslist': rnd.random() < 0.5}})
        if rnd.random() < 0.5:
            # the same tail (one list object in the driver) on another head
            steps.append({'act': 'stack', 'src': rnd.randint(1, nobj),
                          'others': list(steps[-1]['others']),
                          'args': {'dim': d2, 'aslist': True}})
            steps[-2]['args']['aslist'] = True
        progs.append({'templates': [t, t], 'steps': steps})
    return progs


def fill_stacks(rnd, tier):
    """C04: pieces masked with different fill values - one of them a value
    that is valid data in another piece - or with NaN as fill value: the mask
    of the stack is the concatenation of the masks, whatever is held under
    them."""
    def sl(a, b):
        return {'k': 'slice', 'h': [a is not None, b is not None, False],
                'v': [a or 0, b or 0, 0]}
    nowhere = {'h': False, 'shape': [], 'bits': []}

    def mk(src, k, v, fill):
        return {'act': 'mask', 'src': src, 'others': [], 'args': {
            'p': [{'k': k, 'v': v}], 'where': nowhere,
            'usedims': {'h': False, 'v': []}, 'coords': False, 'fill': fill}}
    progs = []
    # (template, dimension, threshold of the first piece, fill of the first
    # piece = a valid value of the second piece, threshold of the second)
    for t, d, lo, f1, hi in (('T1', 't', 102, 108, 110), ('T1', 'x', 101, 104, 110),
                             ('T4', 't', 401, 405, 406), ('T7', 't', 703, 725, 730)):
        for fills in ((f1, -999), ('nan', 'nan'), (-999, -999), (0, 0),
                      (0, -999)):
            steps = [{'act': 'slice', 'src': 1, 'others': [], 'args': {
                'sels': [{'d': d, 's': sl(None, 1)}], 'newdim': 'POINTS'}},
                {'act': 'slice', 'src': 1, 'others': [], 'args': {
                    'sels': [{'d': d, 's': sl(1, None)}],
                    'newdim': 'POINTS'}},
                mk(2, 'less', lo, fills[0]), mk(3, 'greater', hi, fills[1])]
            for src, others in ((4, [5]), (5, [4]), (4, [5, 4])):
                steps.append({'act': 'stack', 'src': src, 'others': others,
                              'args': {'dim': d, 'aslist': len(others) > 1}})
            progs.append({'templates': [t], 'steps': steps})
    return progs


def mixed_backing_stacks(rnd, tier):
    """C04: in-memory and disk-backed pieces in one stack call: the first
    piece plain and in memory, a later piece masked and read from disk (a
    netCDF4 variable is no masked array, its data are), in every position."""
    def sl(a, b):
        return {'k': 'slice', 'h': [a is not None, b is not None, False],
                'v': [a or 0, b or 0, 0]}
    nowhere = {'h': False, 'shape': [], 'bits': []}
    progs = []
    for t, d, hi in (('T1', 't', 104), ('T1', 'x', 104), ('T4', 't', 402),
                     ('T7', 't', 712), ('T3', 'y', 304)):
        fmt = 'NETCDF4' if t == 'T3' else 'NETCDF4_CLASSIC'
        steps = [{'act': 'slice', 'src': 1, 'others': [], 'args': {
            'sels': [{'d': d, 's': sl(None, 1)}], 'newdim': 'POINTS'}},
            {'act': 'slice', 'src': 1, 'others': [], 'args': {
                'sels': [{'d': d, 's': sl(1, None)}], 'newdim': 'POINTS'}},
            {'act': 'mask', 'src': 3, 'others': [], 'args': {
                'p': [{'k': 'greater', 'v': hi}], 'where': nowhere,
                'usedims': {'h': False, 'v': []}, 'coords': False}},
            {'act': 'reopen', 'src': 4, 'others': [],
             'args': {'format': fmt}},
            {'act': 'reopen', 'src': 2, 'others': [],
             'args': {'format': fmt}}]
        # 2: first piece (memory, plain) 4: second (memory, masked)
        # 5: second (disk, masked)      6: first (disk, plain)
        for src, others, aslist in ((2, [5], False), (2, [5], True),
                                    (2, [5, 2], True), (2, [2, 5], True),
                                    (2, [4, 5], True), (6, [5], False),
                                    (2, [6, 5], True)):
            steps.append({'act': 'stack', 'src': src, 'others': others,
                          'args': {'dim': d, 'aslist': aslist}})
        progs.append({'templates': [t], 'steps': steps})
    return progs


def empty_stacks(rnd, tier):
    """C04: pieces of length 0 along the stack dimension - first, in the
    middle, last, all of them: the first file still decides the variables
    that do not have the dimension, and an all-empty stack keeps every
    variable."""
    def sl(a, b):
        return {'k': 'slice', 'h': [a is not None, b is not None, False],
                'v': [a or 0, b or 0, 0]}
    nowhere = {'h': False, 'shape': [], 'bits': []}
    progs = []
    for t, d, hi in (('T1', 't', 202), ('T4', 't', 0), ('T7', 't', 763),
                     ('T1', 'x', 202)):
        steps = [
            # 2: a masked version (variables without d differ from object 1)
            {'act': 'mask', 'src': 1, 'others': [], 'args': {
                'p': [{'k': 'greater', 'v': hi}], 'where': nowhere,
                'usedims': {'h': False, 'v': []}, 'coords': False}},
            # 3: empty piece of the masked version, 4: empty piece of the plain
            {'act': 'slice', 'src': 2, 'others': [], 'args': {
                'sels': [{'d': d, 's': sl(0, 0)}], 'newdim': 'POINTS'}},
            {'act': 'slice', 'src': 1, 'others': [], 'args': {
                'sels': [{'d': d, 's': sl(0, 0)}], 'newdim': 'POINTS'}}]
        for src, others, aslist in ((3, [1], False), (3, [1], True),
                                    (1, [3], False), (1, [3, 1], True),
                                    (3, [4], False), (4, [3], True),
                                    (3, [3, 4], True), (4, [2], False)):
            steps.append({'act': 'stack', 'src': src, 'others': others,
                          'args': {'dim': d, 'aslist': aslist}})
        progs.append({'templates': [t], 'steps': steps})
    return progs


def disk_applies(rnd, tier):
    """C03: named reducers and callables along every dimension of a
    DISK-BACKED file whose variables have missing cells (the data of a
    netCDF4 variable are a masked array, the variable object is not)."""
    dims = {'T2': ['t', 'x'], 'T4': ['t', 'y', 'x'], 'T7': ['t', 'z', 'x']}
    progs = []
    for t in sorted(dims):
        steps = [{'act': 'reopen', 'src': 1, 'others': [],
                  'args': {'format': 'NETCDF4_CLASSIC'}}]
        for d in dims[t]:
            for red in ('mean', 'sum', 'min', 'max'):
                steps.append({'act': 'apply', 'src': 2, 'others': [],
                              'args': {'funcs': [{'d': d, 'kind': 'reducer',
                                                  'f': red}]}})
        steps.append({'act': 'apply', 'src': 2, 'others': [], 'args': {
            'funcs': [{'d': dims[t][0], 'kind': 'reducer', 'f': 'max'},
                      {'d': dims[t][-1], 'kind': 'reducer', 'f': 'min'}]}})
        progs.append({'templates': [t], 'steps': steps})
    return progs


UNLIM = {'T1': ['t'], 'T2': ['t'], 'T3': ['t'], 'T5': ['time'], 'T7': ['t']}


def mfopen_stacks(rnd, tier):
    """C04: the multi-file open helpers pncmfopen / open_mfdataset: a file is
    split into consecutive pieces along a dimension (also after reversing it,
    so that its coordinate variable descends), every piece is written to disk
    and the paths are opened as one file - in the order of the pieces and in
    other orders (the result is the concatenation in ARGUMENT order)."""
    dims = {'T1': {'t': 2, 'y': 2, 'x': 3}, 'T3': {'y': 3, 't': 2, 'x': 2},
            'T5': {'time': 4, 'lev': 3}, 'T7': {'z': 3, 'x': 3, 't': 2},
            'T2': {'t': 3}}

    def sl(a, b, c=None):
        return {'k': 'slice', 'h': [a is not None, b is not None,
                                    c is not None],
                'v': [x if x is not None else 0 for x in (a, b, c)]}
    progs = []
    for t in sorted(dims):
        for d, n in sorted(dims[t].items()):
            for rev in (False, True):
                for via in ('pncmfopen', 'open_mfdataset'):
                    steps = []
                    base = 1
                    if rev:
                        steps.append({'act': 'slice', 'src': 1, 'others': [],
                                      'args': {'sels': [{'d': d, 's': sl(
                                          None, None, -1)}],
                                          'newdim': 'POINTS'}})
                        base = 2
                    cuts = [0, 1, n] if n < 3 or rnd.random() < 0.5 \
                        else [0, 1, 2, n]
                    pieces = []
                    for a, b in zip(cuts[:-1], cuts[1:]):
                        steps.append({'act': 'slice', 'src': base,
                                      'others': [], 'args': {
                                          'sels': [{'d': d, 's': sl(a, b)}],
                                          'newdim': 'POINTS'}})
                        pieces.append(base + len(pieces) + 1)
                    disk = []
                    for pc in pieces:
                        steps.append({'act': 'reopen', 'src': pc,
                                      'others': [], 'args': {
                                          # (the classic format wants the
                                          # unlimited dimension first)
                                          'format': rnd.choice([
                                              'NETCDF4_CLASSIC',
                                              'NETCDF3_CLASSIC'])
                                          if t != 'T3' else 'NETCDF4'}})
                        disk.append(pieces[-1] + len(disk) + 1)
                    orders = [disk, disk[::-1]]
                    if len(disk) == 3:
                        orders.append([disk[1], disk[2], disk[0]])
                    # the same path more than once
                    orders.append(disk + [disk[0]])
                    orders.append([disk[-1], disk[-1]])
                    for o in orders:
                        args = {'dim': d, 'via': via}
                        # open_mfdataset without a dimension name picks the
                        # first unlimited dimension (or a time-like name)
                        if via == 'open_mfdataset' and d in UNLIM[t]:
                            args['defaultdim'] = True
                        steps.append({'act': 'stack', 'src': o[0],
                                      'others': o[1:], 'args': args})
                    progs.append({'templates': [t], 'steps': steps})
    if tier == 'quick':
        progs = rnd.sample(progs, min(len(progs), 40))
    return progs


def zipped_selections(rnd, tier):
    """C02: equal-length index lists on every pair / triple of dimensions
    (adjacent or not, leading axis or not), with repeats and negative indices,
    alone or with an integer / slice on another dimension, in both keyword
    orders."""
    import itertools
    dims = {'T1': {'t': 2, 'y': 2, 'x': 3}, 'T3': {'y': 3, 't': 2, 'x': 2},
            'T4': {'t': 2, 'z': 1, 'y': 2, 'x': 2},
            'T7': {'t': 2, 'z': 3, 'y': 2, 'x': 3}}
    progs = []
    for t in sorted(dims):
        names = list(dims[t])
        combos = list(itertools.combinations(names, 2)) + \
            list(itertools.combinations(names, 3))
        for ds in combos:
            for m in (1, 2, 4):
                for order in (ds, ds[::-1]):
                    sels = [{'d': d, 's': {'k': 'list', 'v': [
                        rnd.randint(-dims[t][d], dims[t][d] - 1)
                        for _ in range(m)]}} for d in order]
                    rest = [d for d in names if d not in ds]
                    if rest and rnd.random() < 0.6:
                        d = rnd.choice(rest)
                        sels.insert(rnd.randint(0, len(sels)), {
                            'd': d, 's': cd.rsel(rnd, dims[t][d],
                                                 ('int', 'slice'))})
                    progs.append({'templates': [t], 'steps': [{
                        'act': 'slice', 'src': 1, 'others': [],
                        'args': {'sels': sels, 'newdim': 'POINTS'}}]})
    if tier == 'quick':
        progs = rnd.sample(progs, min(len(progs), 200))
    return progs


def stringform_slices(rnd, tier):
    """C02: every dimension of every template through slice_dim with a
    catalogue of selections: forward, strided, from the end, reversed down to
    element 0, reversed with an explicit stop, single (also negative) indices."""
    dims = {'T1': {'t': 2, 'y': 2, 'x': 3}, 'T2': {'t': 3, 'z': 1, 'x': 2},
            'T3': {'y': 3, 't': 2, 'x': 2}, 'T4': {'t': 2, 'y': 2, 'x': 2},
            'T7': {'t': 2, 'z': 3, 'y': 2, 'x': 3},
            'T9': {'t': 2, 'lev': 3, 'lev2': 2, 'lev2m': 2, 'lev10': 2}}

    def sl(a, b, c):
        return {'k': 'slice', 'h': [a is not None, b is not None,
                                    c is not None],
                'v': [x if x is not None else 0 for x in (a, b, c)]}
    progs = []
    for t in sorted(dims):
        for d, n in dims[t].items():
            cat = [sl(1, None, None), sl(None, None, 2), sl(-2, None, None),
                   sl(None, None, -1), sl(n - 1, None, -2), sl(None, 0, -1),
                   sl(0, n, 1), {'k': 'int', 'v': 0},
                   {'k': 'int', 'v': n - 1}, {'k': 'int', 'v': -1},
                   {'k': 'int', 'v': -n}]
            for s_ in cat:
                if s_['k'] == 'slice' and len(range(*cd.py_sel(s_).indices(
                        n))) == 0:
                    continue
                args = {'sels': [{'d': d, 's': s_}], 'newdim': 'POINTS',
                        'via': 'slice_dim'}
                # the default of the command line: the numbered variants of
                # the dimension are sliced too
                if t == 'T9' or rnd.random() < 0.5:
                    args['fz'] = cd.fz_of(dims[t])
                progs.append({'templates': [t], 'steps': [{
                    'act': 'slice', 'src': 1, 'others': [], 'args': args}]})
    if tier == 'quick':
        t9 = [p for p in progs if p['templates'] == ['T9']]
        rest = [p for p in progs if p['templates'] != ['T9']]
        progs = rnd.sample(rest, min(len(rest), 90)) + \
            rnd.sample(t9, min(len(t9), 30))
    return progs


def stringform_applies(rnd, tier):
    """C03: every dimension of every template through the string forms
    reduce_dim ('dim,function') and convolve_dim ('dim,mode,weights')."""
    dims = {'T1': ['t', 'y', 'x'], 'T2': ['t', 'z', 'x'],
            'T3': ['y', 't', 'x'], 'T4': ['t', 'z', 'y', 'x'],
            'T7': ['t', 'z', 'y', 'x'],
            'T9': ['t', 'lev', 'lev2', 'lev2m', 'lev10']}
    progs = []
    for t in sorted(dims):
        for d in dims[t]:
            for fn in ('sum', 'min', 'max', 'mean', 'std', 'median'):
                args = {'funcs': [{'d': d, 'kind': 'reducer', 'f': fn}],
                        'via': 'reduce_dim'}
                if t == 'T9' or rnd.random() < 0.5:
                    args['fz'] = cd.fz_of(dims[t])
                progs.append({'templates': [t], 'steps': [{
                    'act': 'apply', 'src': 1, 'others': [], 'args': args}]})
            for fn in sorted(cd.CONVDEFS):
                progs.append({'templates': [t], 'steps': [{
                    'act': 'apply', 'src': 1, 'others': [], 'args': {
                        'funcs': [{'d': d, 'kind': 'callable', 'f': fn}],
                        'via': 'convolve_dim'}}]})
    if tier == 'quick':
        t9 = [p for p in progs if (p['templates'] == ['T9']
                                   and 'fz' in p['steps'][0]['args'])
              or (p['steps'][0]['args']['funcs'][0]['f'] == 'median'
                  and p['templates'][0] in ('T2', 'T7', 'T4'))]
        rest = [p for p in progs if p not in t9]
        progs = rnd.sample(rest, min(len(rest), 70)) + t9
    return progs


def selection_applies(rnd, tier):
    """C03: functions that only select or reorder elements (reverse,
    sub-sampling, first element) along every dimension of the templates with
    masked variables - also where unmasked cells hold inf / nan (T6): every
    cell moves with its mask and its value."""
    dims = {'T2': ['t', 'z', 'x'], 'T6': ['t', 'x'], 'T7': ['t', 'z', 'y', 'x'],
            'T4': ['t', 'y', 'x'], 'T11': ['t', 'lev']}
    progs = []
    for t in sorted(dims):
        for d in dims[t]:
            for fn in ('rev', 'sub2', 'first'):
                progs.append({'templates': [t], 'steps': [{
                    'act': 'apply', 'src': 1, 'others': [], 'args': {
                        'funcs': [{'d': d, 'kind': 'callable', 'f': fn}]}}]})
            if t == 'T11':
                # a dimension used twice by one variable: reducers and other
                # functions run along both axes
                for fn, kind in (('mean', 'reducer'), ('sum', 'reducer'),
                                 ('max', 'reducer'), ('conv121s', 'callable'),
                                 ('diff', 'callable')):
                    progs.append({'templates': [t], 'steps': [{
                        'act': 'apply', 'src': 1, 'others': [], 'args': {
                            'funcs': [{'d': d, 'kind': kind, 'f': fn}]}}]})
    return progs


def mask_codes(rnd, tier):
    """C06: mask(values=...) / mask(equal=...) on integer codes of large
    magnitude (template T10), alone and with another predicate."""
    progs = []
    nowhere = {'h': False, 'shape': [], 'bits': []}
    for v in (2019001, 2019003, 2019021, 2020001, 2, 1):
        for k in ('values', 'equal'):
            for extra in ([], [{'k': 'less', 'v': 2019002}],
                          [{'k': 'greater_equal', 'v': 2019022}]):
                progs.append({'templates': ['T10'], 'steps': [{
                    'act': 'mask', 'src': 1, 'others': [], 'args': {
                        'p': [{'k': k, 'v': v}] + extra, 'where': nowhere,
                        'usedims': {'h': False, 'v': []},
                        'coords': False}}]})
    return progs


def derived_types(rnd, tier):
    """C02 / C06: variables made by eval whose type differs from the type of
    the variables they were derived from (comparison: bool; bool - int: int64;
    int * float: float64), masked and plain - then sliced through the string
    form and the method (variables without the selected dimension must come
    out identical), or masked with values the type cannot hold (cells that
    were masked stay masked)."""
    def V(k):
        return {'t': 'var', 'k': k}

    def B(op, l_, r):
        return {'t': 'bin', 'op': op, 'l': l_, 'r': r}

    def I(v):
        return {'t': 'int', 'v': v}
    nowhere = {'h': False, 'shape': [], 'bits': []}
    exprs = {'T4': [B('-', B('==', V('G'), V('G')), I(2)),
                    B('<=', V('G'), I(440)), B('*', V('H'), I(3)),
                    B('+', B('*', V('G'), I(1000000)), V('G')),
                    B('>', V('D'), I(403))],
             'T6': [B('<=', B('+', V('V'), I(1)), B('-', V('V'), I(4))),
                    B('-', B('==', V('V'), V('V')), I(2))]}
    dims = {'T4': ['t', 'z', 'y', 'x'], 'T6': ['t', 'x']}
    progs = []
    for t in sorted(exprs):
        for e in exprs[t]:
            ev = {'act': 'eval', 'src': 1, 'others': [], 'args': {
                'assign': [{'name': 'NEW0', 'e': e}], 'copyall': True}}
            steps = [ev]
            for d in dims[t]:
                for via in ('slice_dim', None):
                    a = {'sels': [{'d': d, 's': {'k': 'slice', 'h': [
                        True, False, False], 'v': [1, 0, 0]}}],
                        'newdim': 'POINTS'}
                    if via:
                        a['via'] = via
                    steps.append({'act': 'slice', 'src': 3, 'others': [],
                                  'args': a})
            for pv in ([{'k': 'values', 'v': 205}],
                       [{'k': 'values', 'v': 205}, {'k': 'equal', 'v': 131}],
                       [{'k': 'values', 'v': 1}], [{'k': 'equal', 'v': 70000}],
                       [{'k': 'values', 'v': -1}]):
                steps.append({'act': 'mask', 'src': 3, 'others': [], 'args': {
                    'p': pv, 'where': nowhere,
                    'usedims': {'h': False, 'v': []}, 'coords': False}})
            steps.append({'act': 'copy', 'src': 3, 'others': [], 'args': {}})
            progs.append({'templates': [t, t], 'steps': steps})
    return progs


def singleton_removals(rnd, tier):
    """C01: variables that lose two or three length-1 dimensions in ONE
    removeSingleton() call (adjacent or not, leading or trailing), with and
    without a dimension named."""
    def one(d, v):
        return {'d': d, 's': {'k': 'slice', 'h': [True, True, False],
                              'v': [v, v + 1, 0]}}
    progs = []
    for t, sets in (('T4', [['t'], ['t', 'y'], ['y', 'x'], ['t', 'x'],
                            ['t', 'y', 'x']]),
                    ('T7', [['t', 'y'], ['z', 'x'], ['t', 'z', 'y'],
                            ['t', 'x']]),
                    ('T1', [['t', 'y'], ['t', 'x'], ['y', 'x']])):
        for ds in sets:
            steps = [{'act': 'slice', 'src': 1, 'others': [], 'args': {
                'sels': [one(d, 0) for d in ds], 'newdim': 'POINTS'}},
                {'act': 'rmsingle', 'src': 2, 'others': [],
                 'args': {'h': False, 'd': ds[0]}},
                {'act': 'rmsingle', 'src': 2, 'others': [],
                 'args': {'h': True, 'd': ds[-1]}},
                {'act': 'copy', 'src': 3, 'others': [], 'args': {}}]
            progs.append({'templates': [t], 'steps': steps})
    return progs


def broadcast_evals(rnd, tier):
    """C01: eval expressions whose operands have different dimensions (numpy
    broadcasts them; outside the domain the model gives values for): the call
    raises or the result is well-formed, whichever operand comes first and
    whether or not one is masked - and later operations on it work."""
    def V(k):
        return {'t': 'var', 'k': k}

    def B(op, l_, r):
        return {'t': 'bin', 'op': op, 'l': l_, 'r': r}
    pairs = {'T4': [('H', 'G'), ('D', 'G'), ('D', 'H')],
             'T1': [('A', 'x'), ('A', 'B'), ('B', 'x')],
             'T7': [('F', 'z')]}
    progs = []
    for t in sorted(pairs):
        for a, b in pairs[t]:
            for l_, r in ((a, b), (b, a)):
                for op in ('+', '*', '<'):
                    progs.append({'templates': [t, t], 'steps': [
                        {'act': 'eval', 'src': 1, 'others': [], 'args': {
                            'assign': [{'name': 'NEW0',
                                        'e': B(op, V(l_), V(r))}],
                            'copyall': True}},
                        {'act': 'copy', 'src': 3, 'others': [], 'args': {}}]})
                # a second assignment whose value is a plain (masked) array of
                # the broadcast shape, after an intermediate variable of that
                # shape was assigned
                w = {'t': 'where', 'c': B('>', V(r), {'t': 'int', 'v': 102}),
                     'x': V(r), 'y': V(l_)}
                progs.append({'templates': [t, t], 'steps': [
                    {'act': 'eval', 'src': 1, 'others': [], 'args': {
                        'assign': [{'name': 'NEW0',
                                    'e': B('<=', B('-', V(l_), V(r)), V(r))},
                                   {'name': 'NEW1', 'e': B('-', w, V(r))}],
                        'copyall': True}},
                    {'act': 'copy', 'src': 3, 'others': [], 'args': {}}]})
    return progs


def mixed_type_arith(rnd, tier):
    """C06: every operator between two files that hold the same variables in
    different storage types (int16 / int32, float32 / float64), narrower on
    the left and on the right."""
    ops = ['+', '-', '*', '/', '//', '%', '<', '<=', '>', '>=', '==', '!=']
    progs = []
    for a, b in (('T12', 'T13'), ('T13', 'T12')):
        progs.append({'templates': [a, b], 'steps': [
            {'act': 'arith', 'src': 1, 'others': [2], 'args': {'op': op}}
            for op in ops]})
    return progs


def mixed_arith(rnd, tier):
    """C06: every operator between a file of plain (never masked) variables
    and a masked version of it, in both operand orders."""
    nowhere = {'h': False, 'shape': [], 'bits': []}
    thr = {'T1': 103, 'T4': 402, 'T3': 304}
    ops = ['+', '-', '*', '/', '//', '%', '**', '<', '<=', '>', '>=', '==',
           '!=']
    progs = []
    for t in sorted(thr):
        steps = [{'act': 'mask', 'src': 2, 'others': [], 'args': {
            'p': [{'k': 'greater', 'v': thr[t]}], 'where': nowhere,
            'usedims': {'h': False, 'v': []}, 'coords': False}}]
        for op in ops:
            steps.append({'act': 'arith', 'src': 1, 'others': [3],
                          'args': {'op': op}})
            steps.append({'act': 'arith', 'src': 3, 'others': [1],
                          'args': {'op': op}})
        progs.append({'templates': [t, t], 'steps': steps})
    return progs


def multidim_applies(rnd, tier):
    """C03: every pair / triple of dimensions of every template reduced in ONE
    call - with one reducer name for all of them, and with min/max
    interleaved - directly and after a mask() step (unequal numbers of valid
    cells per lane)."""
    import itertools
    dims = {'T1': ['t', 'y', 'x'], 'T2': ['t', 'z', 'x'],
            'T3': ['y', 't', 'x'], 'T4': ['t', 'z', 'y', 'x'],
            'T5': ['time', 'lev'], 'T7': ['t', 'z', 'y', 'x']}
    # thresholds inside the templates' value ranges (about half the cells)
    THRESH = {'T1': [103, 105, 108, 202], 'T2': [112, 113, 132, 152],
              'T3': [304, 306, 309, 332], 'T4': [401, 402, 405],
              'T5': [503, 506, 508], 'T7': [705, 712, 718, 726, 763]}
    progs = []
    for t in sorted(dims):
        combos = list(itertools.combinations(dims[t], 2)) + \
            list(itertools.combinations(dims[t], 3))
        for ds in combos:
            for red in ('mean', 'min', 'max', 'sum'):
                for order in (ds, ds[::-1]):
                    fs = [{'d': d, 'kind': 'reducer', 'f': red}
                          for d in order]
                    if len(ds) == 3 and red in ('min', 'max'):
                        fs[1]['f'] = {'min': 'max', 'max': 'min'}[red]
                    steps = []
                    src = 1
                    if rnd.random() < 0.7:
                        steps.append({'act': 'mask', 'src': 1, 'others': [],
                                      'args': {
                            'p': [{'k': rnd.choice(['greater', 'less']),
                                   'v': rnd.choice(THRESH[t])}],
                            'where': {'h': False, 'shape': [], 'bits': []},
                            'usedims': {'h': False, 'v': []},
                            'coords': False}})
                        src = 2
                    steps.append({'act': 'apply', 'src': src, 'others': [],
                                  'args': {'funcs': fs}})
                    progs.append({'templates': [t], 'steps': steps})
    if tier == 'quick':
        progs = rnd.sample(progs, min(len(progs), 130))
    # callables that return a scalar (np.max, np.sum) on two dimensions of
    # one variable, alone and next to a reducer name or an array-valued
    # callable (unmasked templates: a callable sees the underlying data)
    more = []
    for t in ('T1', 'T3', 'T7', 'T9'):
        names = dims.get(t, ['t', 'lev'])
        for ds in itertools.combinations(names, 2):
            for f1, f2 in (('npmax', 'npmax'), ('npsum', 'npmax'),
                           ('npmax', 'rev'), ('sub2', 'npsum')):
                for order in (ds, ds[::-1]):
                    fs = [{'d': order[0], 'kind': 'callable', 'f': f1},
                          {'d': order[1], 'kind': 'callable', 'f': f2}]
                    more.append({'templates': [t], 'steps': [{
                        'act': 'apply', 'src': 1, 'others': [],
                        'args': {'funcs': fs}}]})
    if tier == 'quick':
        more = rnd.sample(more, min(len(more), 60))
    return progs + more


def run(prop, tier, extra=None):
    c = CFG[prop]
    out = Outcome(prop, tier)
    rnd = random.Random(seed() * 7919 + int(prop[1:]))
    n = c['n'][0 if tier == 'quick' else 1]
    import suite
    rec_wait = suite.record_async(tier)   # the test suite runs meanwhile
    progs = []
    for i in range(n):
        focus = c['focus']
        if prop == 'C06':
            focus = rnd.choice(['arith', 'eval', 'mask'])
        # C06: also the template with non-finite data (inf - inf, nan ...)
        # (C03: selection functions carry non-finite cells and masks along)
        tpl = cd.TEMPLATES + ['T6', 'T6'] if prop in ('C06', 'C03') else None
        progs.append(cd.gen_program(rnd, rnd.choice(c['depths']), focus=focus,
                                    templates=tpl))
    if prop == 'C01':
        # disk-backed receivers ("a file obtained from ... a reader")
        progs += cd.gen_disk_programs(
            rnd, 120 if tier == 'quick' else 1500, [2, 3], False,
            ['T1', 'T2', 'T3', 'T4', 'T5', 'T7'])
    if prop == 'C01':
        progs += broadcast_evals(rnd, tier)
        progs += singleton_removals(rnd, tier)
    if prop == 'C06':
        progs += mask_codes(rnd, tier)
        progs += mixed_arith(rnd, tier)
        progs += mixed_type_arith(rnd, tier)
        progs += derived_types(rnd, tier)
        progs += broadcast_evals(rnd, tier)
    if prop == 'C04':
        progs += hetero_stacks(rnd, tier)
        progs += mfopen_stacks(rnd, tier)
        progs += fill_stacks(rnd, tier)
        progs += mixed_backing_stacks(rnd, tier)
        progs += empty_stacks(rnd, tier)
    if prop == 'C03':
        progs += multidim_applies(rnd, tier)
        progs += stringform_applies(rnd, tier)
        progs += selection_applies(rnd, tier)
        progs += disk_applies(rnd, tier)
    if prop == 'C02':
        progs += zipped_selections(rnd, tier)
        progs += stringform_slices(rnd, tier)
        progs += derived_types(rnd, tier)
    # spec -> code: every program the bounded model emits is replayed
    mcp = cd.mc_programs(out, prop, tier)
    out.cov['programs_emitted_by_tlc'] = len(mcp)
    cd.run_programs(out, mcp + progs, c['enforce'], prop, prop=c['prop'])
    # code -> spec on the repository's own tests (DESIGN.md 4.5): the calls
    # its tests make, validated for this property's clauses
    suite.run_suite(out, tier, c['enforce'], c['prop'], recorded=rec_wait())
    if prop == 'C01':
        # interpolation along a dimension with an N-D coordinate variable
        import c17
        c17.run_nd_structure(out, rnd, tier)
        # IOAPI constructors / readers / wrappers: well-formed, TSTEP unlimited
        import ioapi_driver
        ioapi_driver.run_ioapi_wellformed(out, tier)
    if prop == 'C02':
        # the IOAPI wrapper's data path: TFLAG under selections of the time axis
        import ioapi_driver
        ioapi_driver.run_ioapi_slices(out, tier)
    # the command line pipeline: order of kinds (C01: completes, well-formed;
    # C02 / C03 / C06: values of lines made of their own kinds)
    if prop in ('C01', 'C02', 'C03', 'C06'):
        import pipeline
        pipeline.run_pipeline(out, tier, prop, rnd)
    out.cov['rule'] = ('seeded random programs over templates T1-T5 (depth %s,'
                       ' focus %s); a case is non-trivial when at least one '
                       'call returned a new file; distinct = template + '
                       'per-step (action, argument class)'
                       % (c['depths'], c['focus']))
    return out.finish()


if __name__ == '__main__':
    prop = sys.argv[1]
    tier = sys.argv[sys.argv.index('--tier') + 1] if '--tier' in sys.argv else 'quick'
    main_wrap(lambda: run(prop, tier))
