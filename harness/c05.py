"""C05: isolation - inputs never modified, results never alias, closing is
local.  Part 1 (heap isolation under every operation/query) is validated on the
PncCore traces (see core_driver.py); part 2 is the handle-table model
(handles.py)."""
import sys
from common import Outcome, main_wrap
import handles

PROP = 'C05'


def run(tier):
    out = Outcome(PROP, tier)
    import suite
    rec_wait = suite.record_async(tier)   # the test suite runs meanwhile
    exh = handles.run_handles(out, tier)
    import core_driver
    core_driver.run_isolation(out, tier)
    # the IOAPI wrappers (they rewrite metadata: of the result only)
    import ioapi_driver
    ioapi_driver.run_ioapi_isolation(out, tier)
    # the calls of the repository's own tests: receivers and arguments unchanged
    suite.run_suite(out, tier, {'iso'}, '-', recorded=rec_wait())
    out.exhaustive = False
    out.cov['rule'] = ('handle schedules: one case = one open/close/drop/'
                       'collect schedule x constructor kinds, non-trivial = '
                       'at least two opens')
    out.assumptions = [
        'partial garbage collections are explored in the model only; CPython '
        'finalises by reference count or gc.collect() and the trace logs which '
        'objects were actually finalised at each step (weak references)',
        'an open object is "valid" iff reading its O3 variable returns that '
        "file's own first value"]
    return out.finish()


if __name__ == '__main__':
    tier = sys.argv[sys.argv.index('--tier') + 1] if '--tier' in sys.argv else 'quick'
    main_wrap(lambda: run(tier))
