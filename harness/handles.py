"""C05 (second half): open/close/drop/collect schedules over disk-backed files.

spec/NcHandles.tla is model-checked over all schedules; every emitted schedule
is replayed on real netCDF files (one forked process per schedule) and the
recorded trace is validated by spec/NcHandles_Trace.tla.
"""
import gc
import os
import random
import shutil
import weakref

from common import (Machinery, run_tlc, need_ok, run_cases, scratch,
                    validate_traces, settle, seed)
import pool as poolmod

BASE = {'A': 1000, 'B': 2000, 'C': 3000}
KINDS = ['netcdf', 'ioapi', 'pncopen', 'save', 'netcdf_rw', 'netcdf_a',
         'pncopen_rw']


def _ctor(kind, path, o, tid=0):
    import PseudoNetCDF as pnc
    if kind == 'netcdf':
        from PseudoNetCDF.core._files import netcdf
        return netcdf(path)
    if kind in ('netcdf_rw', 'netcdf_a', 'pncopen_rw'):
        # writable handles, each on a private copy of the file
        own = '%s.%d.rw.nc' % (path, tid)
        shutil.copyfile(path, own)
        mode = 'a' if kind == 'netcdf_a' else 'r+'
        if kind == 'pncopen_rw':
            return pnc.pncopen(own, format='netcdf', mode=mode)
        from PseudoNetCDF.core._files import netcdf
        return netcdf(own, mode=mode)
    if kind == 'ioapi':
        from PseudoNetCDF.cmaqfiles import ioapi
        return ioapi(path)
    if kind == 'pncopen':
        return pnc.pncopen(path)
    if kind == 'save':
        import numpy as np
        f = pnc.PseudoNetCDFFile()
        f.createDimension('x', 3)
        v = f.createVariable('O3', 'f', ('x',))
        v[:] = np.arange(3) + BASE[o]
        return f.save('%s.%d.saved.nc' % (path, tid), verbose=0)
    raise ValueError(kind)


def _read(obj):
    try:
        v = obj.variables['O3']
        return int(v[...].ravel()[0])
    except BaseException as ex:
        return -1


def _replay(arg):
    tid, sched, kinds, paths = arg
    import warnings
    warnings.simplefilter('ignore')
    objs = {}
    refs = {}
    dead_seen = set()
    closed = set()
    steps = []
    gc.disable()
    for a, o in sched:
        e = {'a': a, 'o': o, 'id': 0}
        if a == 'open':
            objs[o] = _ctor(kinds[o], paths[o], o, tid)
            gid = int(getattr(objs[o], '_grpid', 0))
            # the C library's ids are (n << 16); log n (1..) as the id
            if gid <= 0 or gid % 65536 or gid // 65536 > 60:
                raise RuntimeError('unexpected netCDF id %r' % gid)
            e['id'] = gid // 65536
        elif a == 'close':
            try:
                # a second close() of the raw netCDF4.Dataset that save()
                # returns is netCDF4's own behaviour, not the library's
                if not (kinds[o] == 'save' and o in closed):
                    objs[o].close()
            except Exception as ex:
                e['exc'] = type(ex).__name__
            closed.add(o)
        elif a == 'drop':
            refs[o] = weakref.ref(objs[o])
            del objs[o]
        elif a in ('finalise', 'collect'):
            e['a'] = 'collect'
            gc.collect()
        dead = sorted(k for k, r in refs.items()
                      if r() is None and k not in dead_seen)
        dead_seen.update(dead)
        e['dead'] = dead
        e['read'] = {k: (_read(objs[k]) if (k in objs and k not in closed)
                         else 0) for k in 'ABC'}
        steps.append(e)
    return {'tid': tid, 'kinds': kinds, 'base': BASE, 'steps': steps}


def run_handles(out, tier):
    rnd = random.Random(seed())
    tmp = scratch('c05h')
    try:
        paths = {}
        for o in 'ABC':
            paths[o] = os.path.join(tmp, 'f%s.nc' % o)
            poolmod.write_ioapi_nc(paths[o], base=BASE[o], nt=1, nl=1)
        depth = 6 if tier == 'quick' else 7
        # 1. model checking: all schedules, specified finaliser --------------
        env = {'PNC_STALE': '0', 'PNC_MAXSTEPS': depth, 'PNC_EMIT': '1'}
        r = need_ok(run_tlc('NcHandles_MC', workers=1, timeout=1500, env=env),
                    'NcHandles_MC')
        out.add_tlc('NcHandles_MC all schedules of %d steps, 3 objects'
                    % depth, r)
        if r.violated:
            out.model_violation(r, 'NcHandles_MC')
        scheds = [p['steps'] for p in r.prints
                  if isinstance(p, dict) and 'steps' in p]
        if not scheds:
            raise Machinery('NcHandles_MC emitted no schedule')
        env2 = {'PNC_STALE': '1', 'PNC_MAXSTEPS': depth, 'PNC_EMIT': '0'}
        r2 = need_ok(run_tlc('NcHandles_MC', workers=4, timeout=600, env=env2),
                     'NcHandles_MC stale')
        out.add_tlc('NcHandles_MC with StaleClose=TRUE (sharpness)', r2,
                    'must violate: %s' % r2.violated)
        if not r2.violated:
            raise Machinery('NcHandles invariants are not sharp')
        # schedules of ANY length: with the history hidden by a VIEW the state
        # space of three objects is finite and TLC visits all of it
        r3 = need_ok(run_tlc('NcHandles_MC', cfg='NcHandles_All.cfg',
                             workers=4, timeout=900,
                             env={'PNC_STALE': '0', 'PNC_MAXSTEPS': 0,
                                  'PNC_EMIT': '0'}), 'NcHandles_All')
        out.add_tlc('NcHandles_MC, complete state graph of 3 objects '
                    '(VIEW without the history): schedules of any length',
                    r3, 'depth of the state graph %d' % r3.depth)
        if r3.violated:
            out.model_violation(r3, 'NcHandles_All')
        # 2. replay -----------------------------------------------------------
        # maximal schedules: append a final collect so pending garbage is
        # finalised while other files are still open, then re-read
        # thorough: every schedule of the model is model-checked; a seeded
        # sample of 4000 of them is replayed (x 4 constructor kinds)
        n = 240 if tier == 'quick' else 4000
        chosen = scheds if n >= len(scheds) else rnd.sample(scheds, n)
        args = []
        tid = 0
        for s in chosen:
            s = [list(x) for x in s] + [['collect', 'A']]
            for kind in (KINDS if tier != 'quick' else
                         [rnd.choice(KINDS), 'mixed']):
                tid += 1
                if kind == 'mixed':
                    kinds = {o: rnd.choice(KINDS) for o in 'ABC'}
                else:
                    kinds = {o: kind for o in 'ABC'}
                args.append((tid, s, kinds, paths))
        res = run_cases(_replay, args, timeout=60)
        traces = []
        for a, t in zip(args, res):
            if '_crash' in t or '_hang' in t:
                raise Machinery('handle schedule replay failed: %r %r'
                                % (a[1], t))
            traces.append(t)
        out.cov['evaluations'] += sum(len(t['steps']) for t in traces)
        out.cov['handle_schedules_replayed'] = len(traces)
        out.cov['handle_schedules_emitted'] = len(scheds)
        out.cov['distinct_nontrivial'] += len(set(
            (tuple(tuple(x) for x in a[1]), tuple(sorted(a[2].items())))
            for a in args
            if sum(1 for x in a[1] if x[0] == 'open') >= 2))
        for t in traces[:1]:
            out.sample({'schedule': [[e['a'], e['o']] for e in t['steps']],
                        'kinds': t['kinds'],
                        'ids': [e['id'] for e in t['steps']],
                        'finalised': [e['dead'] for e in t['steps']]})
        verdicts = validate_traces('NcHandles_Trace', traces, out, shard=1500)
        settle(out, traces, verdicts, None)
        return len(scheds) == len(chosen)
    finally:
        shutil.rmtree(tmp, ignore_errors=True)
