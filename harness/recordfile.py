"""The record cursor automaton (spec/RecordFile.tla) bound to
FortranFileUtil.RecordFile: TLC checks the cursor invariants on all call
sequences over small tiled files (plus sharpness runs on two deviations) and
emits every maximal call sequence; each is replayed on a real RecordFile over
a file written from the model's record lengths and the cursor observed after
every call is validated by RecordFile_Trace."""
import os
import shutil
import struct

from common import (unique, Machinery, run_tlc, need_ok, run_cases, scratch,
                    validate_traces, settle)

DEVIATIONS = {'next_ignores_trailer': 'CursorOnRecord',
              'previous_from_eof_skips': 'PrevAfterFailedNext'}


def write_file(path, lens):
    with open(path, 'wb') as f:
        k = 0
        for n in lens:
            payload = b''.join(struct.pack('>i', 1000 + k + j)
                               for j in range(n // 4))
            k += 100
            f.write(struct.pack('>i', n) + payload + struct.pack('>i', n))


def obs(rf):
    return {'pos': int(rf.infile.tell()), 'rstart': int(rf.record_start),
            'rsize': int(rf.record_size)}


def ret_name(r):
    return 'none' if r is None else ('true' if r else 'false')


def case_replay(arg):
    tid, item = arg
    from PseudoNetCDF.camxfiles.FortranFileUtil import RecordFile
    tmp = scratch('recf')
    try:
        path = os.path.join(tmp, 'f.bin')
        write_file(path, item['lens'])
        rf = RecordFile(path)
        tr = {'tid': tid, 'lens': item['lens'], 'init': obs(rf), 'steps': []}
        for op in item['ops']:
            s = {'op': op, 'exc': '', 'ret': 'none'}
            try:
                if op == 'next':
                    s['ret'] = ret_name(rf.next())
                elif op == 'previous':
                    s['ret'] = ret_name(rf.previous())
                elif op == 'restart':
                    rf.restart_record()
                elif op == 'skip4':
                    rf.unpack('i')
                elif op == 'read':
                    rf.read('i')
                elif op == 'eof':
                    s['ret'] = ret_name(rf.eof())
                else:
                    raise Machinery('unknown op %r' % op)
            except Machinery:
                raise
            except Exception as ex:
                s['exc'] = '%s: %s' % (type(ex).__name__, str(ex)[:80])
            s.update(obs(rf))
            tr['steps'].append(s)
        rf.infile.close()
        return tr
    finally:
        shutil.rmtree(tmp, ignore_errors=True)


def run_recordfile(out, tier, rnd):
    scale = 'quick' if tier == 'quick' else 'full'
    depth = '4' if tier == 'quick' else '5'
    env = {'PNC_SCALE': scale, 'PNC_MAXOPS': depth, 'PNC_DEV': 'none'}
    r = need_ok(run_tlc('RecordFile_MC', workers=1, timeout=1800,
                        env=dict(env, PNC_EMIT='1')), 'RecordFile_MC')
    out.add_tlc('RecordFile_MC: cursor always on a record, next() false only '
                'on the last record, previous undoes next, forward scan '
                'visits every record once', r)
    if r.violated:
        out.model_violation(r, 'RecordFile_MC')
    for dev, inv in DEVIATIONS.items():
        rd = need_ok(run_tlc('RecordFile_MC', workers=4, timeout=600,
                             env=dict(env, PNC_EMIT='0', PNC_DEV=dev)),
                     'RecordFile_MC ' + dev)
        out.add_tlc('RecordFile_MC sharpness: %s must violate %s' % (dev, inv),
                    rd)
        if not rd.violated:
            raise Machinery('RecordFile_MC does not distinguish deviation %s'
                            % dev)
    items = unique([p for p in r.prints if isinstance(p, dict) and 'ops' in p])
    if not items:
        raise Machinery('RecordFile_MC emitted nothing')
    if tier == 'quick' and len(items) > 3000:
        items = rnd.sample(items, 3000)
    args = [(500000 + i, it) for i, it in enumerate(items)]
    res = run_cases(case_replay, args, timeout=60, per_child=500,
                    chunksize=100)
    for t in res:
        if '_crash' in t or '_hang' in t:
            raise Machinery('RecordFile replay failed: %r' % (t,))
    out.cov['recordfile_call_sequences'] = len(res)
    out.cov['evaluations'] += len(res)
    out.cov['distinct_nontrivial'] += len(set(
        (tuple(t['lens']), tuple(s['op'] for s in t['steps'])) for t in res))
    verdicts = validate_traces('RecordFile_Trace', res, out, shard=400,
                               label='RecordFile')
    settle(out, res, verdicts, None)
    return len(res)
