"""C06: see corecheck.py / core_driver.py and spec/PncCore*.tla."""
import sys
from common import main_wrap
import corecheck

if __name__ == '__main__':
    tier = sys.argv[sys.argv.index('--tier') + 1] if '--tier' in sys.argv else 'quick'
    main_wrap(lambda: corecheck.run('C06', tier))
