"""C19: ICARTT (ffi1001) write/read round trip.

spec/Icartt.tla states the line layout (writer automaton, reader roles, header
arithmetic); Icartt_MC checks declared = actual counts and reader/writer role
agreement for every small structure and emits the structures; for each, files
with generated values are written with ncf2ffi1001, tokenised, re-read
(explicitly and auto-detected), written and read again; Icartt_Trace validates
layout and content equality."""
import os
import random
import shutil
import sys

import numpy as np

from common import (unique, Outcome, Machinery, run_tlc, need_ok, run_cases, scratch,
                    validate_traces, settle, seed, main_wrap)

PROP = 'C19'
ATTRS = ['PI_CONTACT_INFO', 'PLATFORM', 'LOCATION', 'DATA_INFO',
         'UNCERTAINTY', 'REVISION', 'OTHER_COMMENTS', 'fmt', 'TFLAG',
         'n_header_lines']
ATTVALS = ['R0', 'plain text', 'a: b, c', 'x=1; y=2', 'NASA DC-8', '1.5',
           # blank comments are comments too (the reader gives '' for 'KEY:')
           '', '', ' ']


def e6(x):
    return '%.6e' % float(x)


def content_of(f, indep, descale=None):
    """descale: per variable a power of two the values are divided by (exact)
    before they are rendered."""
    names = [indep] + [k for k in f.variables.keys() if k != indep]
    out = {'names': names, 'units': [], 'missing': [], 'mask': [], 'vals': []}
    for q, k in enumerate(names):
        v = f.variables[k]
        out['units'].append(str(getattr(v, 'units', '')))
        mv = getattr(v, 'missing_value', None)
        out['missing'].append(e6(mv) if mv is not None else 'none')
        arr = np.ma.asarray(v[...]).ravel()
        m = np.ma.getmaskarray(arr)
        out['mask'].append([int(x) for x in m])
        div = descale[q] if descale and q < len(descale) else 1.0
        out['vals'].append([e6(x / div) if not mm else 'masked'
                            for x, mm in zip(np.ma.getdata(arr), m)])
    return out


def run_case(cs):
    import warnings
    warnings.simplefilter('ignore')
    import PseudoNetCDF as pnc
    from PseudoNetCDF.icarttfiles.ffi1001 import ffi1001, ncf2ffi1001
    tmp = scratch('c19')
    tr = {'tid': cs['tid'], 'st': cs['st'], 'wres': 'ok', 'wexc': '',
          'rres': 'ok', 'rexc': '', 'rres2': 'ok', 'rexc2': '',
          'lines': [], 'declared': {'nlhead': -1, 'nv': -1}, 'colnames': [],
          'autocls': '', 'orig': {}, 'read1': {}, 'readauto': {}, 'read2': {},
          'scaled': {'h': False, 'res': 'ok', 'exc': ''}}
    empty = {'names': [], 'units': [], 'missing': [], 'mask': [], 'vals': []}
    tr['read1'] = tr['readauto'] = tr['read2'] = empty
    tr['sread1'] = tr['sread2'] = empty
    try:
        st = cs['st']
        indep = cs.get('indep', 'Start_UTC')
        f = pnc.PseudoNetCDFFile()
        f.createDimension('POINTS', st['nrec'])
        # the independent variable is often stored narrower than the data
        # (whole seconds as integers, single precision)
        # (cs['tpos']: it need not be the first variable of the file)
        tpos = min(cs.get('tpos', 0), st['nv'])

        def mkindep():
            tv = f.createVariable(indep, cs.get('tdtype', 'd'), ('POINTS',))
            tv[:] = cs['t']
            tv.units = cs['tunit']
        for i in range(st['nv']):
            if i == tpos:
                mkindep()
            d = cs['vars'][i]
            v = f.createVariable(d['name'], d.get('dtype', 'd'), ('POINTS',),
                                 fill_value=d['missing'])
            v[:] = np.ma.masked_array(d['vals'], mask=d['mask'])
            v.units = d['unit']
            v.missing_value = d['missing']
        if tpos >= st['nv']:
            mkindep()
        f.SDATE = '2012, 05, 17'
        f.WDATE = '2012, 06, 01'
        f.TIME_INTERVAL = '1'
        f.INDEPENDENT_VARIABLE = indep
        f.PI_NAME = 'Doe, Jane'
        f.ORGANIZATION_NAME = 'VERIF'
        f.SOURCE_DESCRIPTION = 'generated'
        f.MISSION_NAME = 'C19'
        f.VOLUME_INFO = '1, 1'
        for k, val in cs['atts']:
            setattr(f, k, val)
        tr['orig'] = content_of(f, indep)
        p1 = os.path.join(tmp, 'w1.ict')
        try:
            ncf2ffi1001(f, p1).close()
        except Exception as ex:
            tr['wres'] = 'raised'
            tr['wexc'] = repr(ex)[:100]
            return tr
        text = open(p1).read().split('\n')
        while text and text[-1].strip() == '':
            text.pop()
        for ln in text:
            toks = [x.strip() for x in ln.split(',')]
            tr['lines'].append({'ntok': len(toks), 'first': toks[0][:40]})
        try:
            tr['declared'] = {'nlhead': int(text[0].split(',')[0]),
                              'nv': int(text[9].strip())}
            hl = tr['declared']['nlhead']
            tr['colnames'] = [x.strip() for x in text[hl - 1].split(',')]
        except Exception:
            pass
        try:
            g = ffi1001(p1)
            tr['read1'] = content_of(g, indep)
        except Exception as ex:
            tr['rres'] = 'raised'
            tr['rexc'] = repr(ex)[:100]
            return tr
        try:
            a = pnc.pncopen(p1)
            tr['autocls'] = type(a).__name__
            tr['readauto'] = content_of(a, indep)
        except Exception as ex:
            tr['autocls'] = 'raised:' + type(ex).__name__
        try:
            p2 = os.path.join(tmp, 'w2.ict')
            ncf2ffi1001(g, p2).close()
            h = ffi1001(p2)
            tr['read2'] = content_of(h, indep)
        except Exception as ex:
            tr['rres2'] = 'raised'
            tr['rexc2'] = repr(ex)[:100]
        # the same text with scale factors other than 1 (powers of two, so
        # that dividing the values read by the factor is exact): the values
        # are the raw numbers times the factor, once, in every cycle
        if cs.get('scales'):
            tr['scaled']['h'] = True
            try:
                sc = [1.0] + [float(x) for x in cs['scales']]
                lines = open(p1).read().split('\n')
                lines[10] = ', '.join(repr(x) for x in sc[1:])
                p3 = os.path.join(tmp, 'w3.ict')
                with open(p3, 'w') as fo:
                    fo.write('\n'.join(lines))
                g3 = ffi1001(p3)
                tr['sread1'] = content_of(g3, indep, sc)
                p4 = os.path.join(tmp, 'w4.ict')
                ncf2ffi1001(g3, p4).close()
                tr['sread2'] = content_of(ffi1001(p4), indep, sc)
            except Exception as ex:
                tr['scaled']['res'] = 'raised'
                tr['scaled']['exc'] = '%s: %s' % (type(ex).__name__,
                                                  str(ex)[:100])
        return tr
    finally:
        shutil.rmtree(tmp, ignore_errors=True)


def gen_case(rnd, st):
    nrec, nv = st['nrec'], st['nv']
    # half of the cases also go through the scaled-text stage; their values
    # keep at most seven significant digits after multiplication by 1/4..8
    scaled = rnd.random() < 0.5
    mags = [1.5e-30, 2.25e-7, 0.0, 1.0, -3.75, 3.1e20, -4.0e25, 7e-3]
    if not scaled:
        mags += [12345.678, 9.999999e5]
    vars_ = []
    indep = rnd.choice(['Start_UTC', 'Start_UTC', 'Time_Start', 'UTC'])
    for i in range(nv):
        # codes in use: short ones, the wide ICARTT code with 7 significant
        # digits, a fractional one, a large positive one
        miss = rnd.choice([-999, -9999, -99999, -888, -9999999, -8888888,
                           -777.5, 1e20, 0, 0])
        vals, mask = [], []
        for k in range(nrec):
            vals.append(rnd.choice(mags) * rnd.choice([1, 1, -1, 2.5]))
            if miss == 0 and vals[-1] == 0:
                vals[-1] = 1.0      # (a valid value never equals the code)
            mask.append(1 if rnd.random() < 0.25 else 0)
            if not scaled and rnd.random() < 0.15:
                # (seven significant digits: not in the scaled-text cases)
                # a valid value next to this variable's OWN missing code: it
                # differs from the code in the 6th or 7th significant digit
                vals[-1] = float('%.6e' % (miss * (1 + rnd.choice(
                    [4e-6, -4e-6, 1e-6, 6e-7]))))
                if float('%.6e' % vals[-1]) == float('%.6e' % miss):
                    vals[-1] = 1.0
                mask[-1] = 0
            if rnd.random() < 0.2:
                # a valid value that equals ANOTHER variable's missing code
                other = [c for c in (-999, -9999, -99999, -888) if c != miss]
                vals[-1] = float(rnd.choice(other))
                mask[-1] = 0
        # names: also ones that occur inside the independent variable's name
        nm = rnd.choice(['O3', 'NO2', 'CO', 'T', 'P', 'RH', 'UTC', 'Start',
                         'Time', 'U', 'S', 'Stop_UTC', 'art'])
        if rnd.random() < 0.5 or nm in [v['name'] for v in vars_] \
                or nm == indep:
            nm += '_%d' % i
        vars_.append({'name': nm, 'unit': rnd.choice(['ppbv', 'K', 'hPa',
                                                       'percent']),
                      'missing': miss, 'vals': vals, 'mask': mask,
                      'dtype': rnd.choice(['d', 'd', 'd', 'f'])})
    names = rnd.sample(ATTRS[:7], st['natt'])
    atts = [[k, rnd.choice(ATTVALS)] for k in names]
    t0 = rnd.choice([0, 36000, 86000])
    return {'st': st, 't': [t0 + 10 * k for k in range(nrec)],
            'tunit': rnd.choice(['seconds', 's']), 'vars': vars_,
            'indep': indep,
            'tdtype': rnd.choice(['d', 'd', 'i', 'f', 'l']),
            'tpos': rnd.choice([0, 0, 1, 2, 99]),
            'atts': atts,
            # scale factors of the dependent variables for the scaled-text
            # stage (half of the cases)
            'scales': [rnd.choice([1, 0.5, 2, 0.25, 8]) for _ in range(nv)]
            if scaled else []}


def run(tier):
    out = Outcome(PROP, tier)
    rnd = random.Random(seed() * 7919 + 19)
    r = need_ok(run_tlc('Icartt_MC', workers=1, timeout=600,
                        env={'PNC_EMIT': '1'}), 'Icartt_MC')
    out.add_tlc('Icartt_MC: declared = actual header counts, reader roles = '
                'writer roles, all structures nv<=4, natt<=4, nrec<=4', r)
    if r.violated:
        out.model_violation(r, 'Icartt_MC')
    sts = unique([p for p in r.prints if isinstance(p, dict) and 'nv' in p])
    if not sts:
        raise Machinery('Icartt_MC emitted nothing')
    reps = 4 if tier == 'quick' else 40
    cases = []
    for st in sts:
        for k in range(reps):
            cases.append(gen_case(rnd, st))
    # larger structures beyond the model bound
    for i in range(40 if tier == 'quick' else 400):
        cases.append(gen_case(rnd, {'nv': rnd.randint(5, 9),
                                    'natt': rnd.randint(0, 7),
                                    'nrec': rnd.randint(5, 30)}))
    for i, c in enumerate(cases):
        c['tid'] = i + 1
    res = run_cases(run_case, cases, timeout=60, per_child=100, chunksize=10)
    traces = []
    for c, t in zip(cases, res):
        if '_crash' in t or '_hang' in t:
            raise Machinery('icartt case failed: %r %r' % (c['st'], t))
        traces.append(t)
    out.cov['evaluations'] = len(traces)
    out.cov['distinct_nontrivial'] = len(set(
        (t['st']['nv'], t['st']['natt'], t['st']['nrec'],
         tuple(tuple(x) for x in t['orig'].get('vals', [])))
        for t in traces))
    out.cov['rule'] = ('a case is one generated time-series file (structure '
                       'from TLC + generated names, units, missing codes, '
                       'masks, magnitudes 1e-30..1e25); all non-trivial; '
                       'distinct = different structure or values')
    for t in traces[:2]:
        out.sample({'st': t['st'], 'orig': t['orig'],
                    'declared': t['declared'], 'autocls': t['autocls']})
    verdicts = validate_traces('Icartt_Trace', traces, out, shard=1000)
    settle(out, traces, verdicts, None)
    out.assumptions = [
        'values are compared as their %.6e renderings (seven significant '
        'digits)', 'comment attribute values are single-line strings',
        'the independent variable has no missing code in the format']
    return out.finish()


if __name__ == '__main__':
    tier = sys.argv[sys.argv.index('--tier') + 1] if '--tier' in sys.argv else 'quick'
    main_wrap(lambda: run(tier))
