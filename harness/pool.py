"""Builds small disk files of the self-describing formats (used by C15, C05).

netCDF files are written with the netCDF4 package directly (not through the
library under test); binary samples are copies of the repository's testcase
files under other names / suffixes.
"""
import os
import shutil
import numpy as np


def write_plain_nc(path, fmt='NETCDF3_CLASSIC', base=100):
    import netCDF4
    ds = netCDF4.Dataset(path, 'w', format=fmt)
    ds.createDimension('time', None)
    ds.createDimension('y', 2)
    ds.createDimension('x', 3)
    t = ds.createVariable('time', 'f8', ('time',))
    t.units = 'hours since 2000-01-01 00:00:00'
    v = ds.createVariable('A', 'f4', ('time', 'y', 'x'))
    v.units = 'ppb'
    w = ds.createVariable('B', 'i4', ('y', 'x'))
    w.units = '1'
    t[0:2] = [0, 1]
    v[0:2] = (np.arange(12).reshape(2, 2, 3) + base).astype('f4')
    w[:] = np.arange(6).reshape(2, 3) + base + 50
    ds.title = 'plain %d' % base
    ds.close()


def write_ioapi_nc(path, fmt='NETCDF3_CLASSIC', base=200, nt=2, nl=2, nr=2,
                   nc=3, names=('O3', 'NO2'), sdate=2011365, stime=220000,
                   tstep=10000, gaps=None, profile=False):
    """gaps: per record the number of steps since the start (an irregular
    time axis); profile: also an unlisted variable PRES(TSTEP, LAY)."""
    import netCDF4
    ds = netCDF4.Dataset(path, 'w', format=fmt)
    ds.createDimension('TSTEP', None)
    ds.createDimension('DATE-TIME', 2)
    ds.createDimension('LAY', nl)
    ds.createDimension('VAR', len(names))
    ds.createDimension('ROW', nr)
    ds.createDimension('COL', nc)
    tf = ds.createVariable('TFLAG', 'i4', ('TSTEP', 'VAR', 'DATE-TIME'))
    tf.units = '<YYYYDDD,HHMMSS>'
    tf.long_name = 'TFLAG'.ljust(16)
    tf.var_desc = 'Timestep-valid flags:  (1) YYYYDDD or (2) HHMMSS'.ljust(80)
    import datetime
    t0 = datetime.datetime.strptime('%07d%06d' % (sdate, stime), '%Y%j%H%M%S')
    dt = datetime.timedelta(hours=tstep // 10000,
                            minutes=tstep // 100 % 100, seconds=tstep % 100)
    for ti in range(nt):
        t = t0 + (gaps[ti] if gaps else ti) * dt
        tf[ti, :, 0] = int(t.strftime('%Y%j'))
        tf[ti, :, 1] = int(t.strftime('%H%M%S'))
    for vi, n in enumerate(names):
        v = ds.createVariable(n, 'f4', ('TSTEP', 'LAY', 'ROW', 'COL'))
        v.long_name = n.ljust(16)
        v.units = 'ppmV'.ljust(16)
        v.var_desc = n.ljust(80)
        v[0:nt] = (np.arange(nt * nl * nr * nc).reshape(nt, nl, nr, nc) +
                   base + 100 * vi).astype('f4')
    if profile:
        v = ds.createVariable('PRES', 'f4', ('TSTEP', 'LAY'))
        v.long_name = 'PRES'.ljust(16)
        v.units = 'Pa'.ljust(16)
        v.var_desc = 'PRES'.ljust(80)
        v[0:nt] = np.arange(nt * nl).reshape(nt, nl).astype('f4')
    ds.IOAPI_VERSION = 'x'.ljust(80)
    ds.EXEC_ID = '?'.ljust(80)
    ds.FTYPE = np.int32(1)
    ds.CDATE = np.int32(2020001)
    ds.CTIME = np.int32(0)
    ds.WDATE = np.int32(2020001)
    ds.WTIME = np.int32(0)
    ds.SDATE = np.int32(sdate)
    ds.STIME = np.int32(stime)
    ds.TSTEP = np.int32(tstep)
    ds.NTHIK = np.int32(1)
    ds.NCOLS = np.int32(nc)
    ds.NROWS = np.int32(nr)
    ds.NLAYS = np.int32(nl)
    ds.NVARS = np.int32(len(names))
    ds.GDTYP = np.int32(2)
    ds.P_ALP = np.float64(33.)
    ds.P_BET = np.float64(45.)
    ds.P_GAM = np.float64(-97.)
    ds.XCENT = np.float64(-97.)
    ds.YCENT = np.float64(40.)
    ds.XORIG = np.float64(-2736000.)
    ds.YORIG = np.float64(-2088000.)
    ds.XCELL = np.float64(36000.)
    ds.YCELL = np.float64(36000.)
    ds.VGTYP = np.int32(7)
    ds.VGTOP = np.float32(5000.)
    ds.VGLVLS = np.linspace(1, 0, nl + 1).astype('f4')
    ds.GDNAM = 'TESTGRID'.ljust(16)
    ds.UPNAM = 'VERIF'.ljust(16)
    setattr(ds, 'VAR-LIST', ''.join(n.ljust(16) for n in names))
    ds.FILEDESC = 'verif'.ljust(80)
    ds.HISTORY = ''
    ds.close()


def build_pool(d):
    """Returns ordered dict id -> (path, explicit format name or None)."""
    tc = os.path.join(os.environ.get('PNC_REPO', '/repo'),
                      'src/PseudoNetCDF/testcase')
    pool = {}

    def cp(src, name):
        dst = os.path.join(d, name)
        shutil.copyfile(os.path.join(tc, src), dst)
        return dst
    p = os.path.join(d, 'plain.nc')
    write_plain_nc(p, base=100)
    pool['plain_nc'] = (p, 'netcdf')
    p = os.path.join(d, 'plain.ncf')
    write_plain_nc(p, base=110)
    pool['plain_ncf'] = (p, 'netcdf')
    p = os.path.join(d, 'plain_noext')
    write_plain_nc(p, base=120)
    pool['plain_noext'] = (p, 'netcdf')
    p = os.path.join(d, 'hdf5.nc')
    write_plain_nc(p, fmt='NETCDF4', base=130)
    pool['hdf5_nc'] = (p, 'netcdf')
    p = os.path.join(d, 'ioapi.nc')
    write_ioapi_nc(p, base=200)
    pool['ioapi_nc'] = (p, 'ioapi')
    p = os.path.join(d, 'ioapi_noext')
    write_ioapi_nc(p, base=300)
    pool['ioapi_noext'] = (p, 'ioapi')
    pool['uamiv'] = (cp('camxfiles/uamiv/test.uamiv', 's1.uamiv'), 'uamiv')
    pool['uamiv_noext'] = (cp('camxfiles/uamiv/test.uamiv', 'avrg_noext'),
                           'uamiv')
    pool['uamiv_as_nc'] = (cp('camxfiles/uamiv/test.uamiv', 'avrg.nc'),
                           'uamiv')
    pool['lateral_boundary'] = (
        cp('camxfiles/lateral_boundary/test.lateral_boundary',
           's2.lateral_boundary'), 'lateral_boundary')
    pool['humidity'] = (cp('camxfiles/humidity/test.humidity',
                           's3.humidity'), 'humidity')
    pool['kv'] = (cp('camxfiles/vertical_diffusivity/'
                     'test.vertical_diffusivity', 's4.vertical_diffusivity'),
                  'vertical_diffusivity')
    pool['ffi1001'] = (cp('icarttfiles/test.ffi1001', 's5.ffi1001'),
                       'ffi1001')
    pool['ffi1001_ict'] = (cp('icarttfiles/test.ffi1001', 's6.ict'),
                           'ffi1001')
    # the SAME file under a second name (a hard link) whose suffix names the
    # other format with this layout: what is selected depends on the name and
    # the content given, not on the inode having been opened before
    lk = os.path.join(d, 's7.vertical_diffusivity')
    try:
        os.link(pool['humidity'][0], lk)
    except OSError:
        os.symlink(pool['humidity'][0], lk)
    pool['humidity_link_kv'] = (lk, 'vertical_diffusivity')
    return pool
