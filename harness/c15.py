"""C15: format auto-detection depends only on the file, not on history.

Spec: spec/Registry.tla.  TLC model-checks HistoryFree / RegistryStable over
all open histories of a pool of files (environment measured from the real
isMine classmethods in a fresh process), emits every history, the histories are
replayed against pncopen (one forked process per history, so each starts from
the pristine registry), and the recorded traces are validated by
spec/Registry_Trace.tla.
"""
import json
import os
import random
import shutil
import sys

from common import (Outcome, Machinery, run_tlc, need_ok, run_cases, scratch,
                    validate_traces, settle, seed, main_wrap)
import pool as poolmod
from project import digest

PROP = 'C15'


def clsid(c):
    return '%s.%s' % (c.__module__.replace('PseudoNetCDF.', ''), c.__name__)


def _measure_one(arg):
    """Fresh process: acceptance of one file by every registered class, what
    auto-detection presents, and what the explicitly named format presents."""
    fid, path, fmt = arg
    import warnings
    warnings.simplefilter('ignore')
    import PseudoNetCDF as pnc
    from PseudoNetCDF import _getreader as gr
    reg = list(gr._readers)
    names = [n for n, c in reg]
    classof = {n: clsid(c) for n, c in reg}
    accept = []
    raises = []
    seen = set()
    for n, c in reg:
        cid = clsid(c)
        if cid in seen:
            continue
        seen.add(cid)
        if hasattr(c, 'isMine'):
            try:
                ok = bool(c.isMine(path))
            except Exception:
                ok = True
                raises.append(cid)
        else:
            ok = True
        if ok:
            accept.append(cid)
    out = {'fid': fid, 'names': names, 'classof': classof, 'accept': accept,
           'raises': raises,
           'ext': os.path.splitext(path)[1][1:]}
    return out


def _open_fresh(arg):
    fid, path, fmt = arg
    import warnings
    warnings.simplefilter('ignore')
    import PseudoNetCDF as pnc
    out = {'fid': fid}
    try:
        f = pnc.pncopen(path)
        out['cls0'] = clsid(type(f))
        out['digest0'] = digest(f)
    except Exception as ex:
        out['cls0'] = '<raised:%s>' % type(ex).__name__
        out['digest0'] = '<none>'
    return out


def _open_explicit(arg):
    fid, path, fmt = arg
    import warnings
    warnings.simplefilter('ignore')
    import PseudoNetCDF as pnc
    try:
        f = pnc.pncopen(path, format=fmt)
        return {'fid': fid, 'explicit': digest(f)}
    except Exception as ex:
        return {'fid': fid, 'explicit': '<raised:%s>' % type(ex).__name__}


def _replay(arg):
    """One history in one forked process."""
    tid, hist, paths = arg
    mf = []
    if isinstance(hist, dict):      # {'h': opens, 'mf': members of a final pncmfopen}
        hist, mf = hist['h'], hist['mf']
    import warnings
    warnings.simplefilter('ignore')
    import PseudoNetCDF as pnc
    from PseudoNetCDF import _getreader as gr
    regs = []

    def intern():
        names = [n for n, c in gr._readers]
        for i, r in enumerate(regs):
            if r == names:
                return i + 1
        regs.append(names)
        return len(regs)
    intern()
    steps = []
    keep = []
    for fid in hist:
        rb = intern()
        if fid == 'REG':
            # a reader registered while the process runs: a subclass of the
            # gridded CAMx reader (creating it registers it; a second creation
            # under the same name changes nothing)
            from PseudoNetCDF.camxfiles.uamiv.Memmap import uamiv as parent
            late = type('late_uamiv', (parent,), {'__module__': 'verif_late'})
            steps.append({'f': 'REG', 'rb': rb, 'ra': intern(),
                          'cls': clsid(late), 'digest': '<none>',
                          'name': 'late_uamiv'})
            continue
        try:
            f = pnc.pncopen(paths[fid])
            cls = clsid(type(f))
            dg = digest(f)
            keep.append(f)
        except Exception as ex:
            cls = '<raised:%s>' % type(ex).__name__
            dg = '<none>'
        ra = intern()
        steps.append({'f': fid, 'rb': rb, 'ra': ra, 'cls': cls, 'digest': dg})
    # the multi-file helper opens its members one after the other with pncopen
    # (observed from outside: the module-level name it calls is wrapped); every
    # member is an open of the history like any other
    if mf:
        orig = gr.pncopen
        got = []

        def rec(*a, **k):
            try:
                f = orig(*a, **k)
            except Exception as ex:
                got.append((a[0], None, ex))
                raise
            got.append((a[0], f, None))
            return f
        rb = intern()
        gr.pncopen = rec
        try:
            pnc.pncmfopen([paths[x] for x in mf], stackdim='TSTEP')
        except Exception:
            pass
        finally:
            gr.pncopen = orig
        ra = intern()
        byp = {paths[x]: x for x in mf}
        for pth, f, ex in got:
            if f is not None:
                cls, dg = clsid(type(f)), digest(f)
                keep.append(f)
            else:
                cls, dg = '<raised:%s>' % type(ex).__name__, '<none>'
            steps.append({'f': byp[pth], 'rb': rb, 'ra': ra, 'cls': cls,
                          'digest': dg, 'via': 'pncmfopen'})
        # members the helper never opened (an earlier one raised)
        for x in mf[len(got):]:
            pass
    res = {'tid': tid, 'regs': regs, 'steps': steps}
    # leave without running finalisers of half-open datasets
    sys.stdout.flush()
    return res


def build_env(tmp):
    pool = poolmod.build_pool(tmp)
    args = [(fid, p, fmt) for fid, (p, fmt) in pool.items()]
    meas = run_cases(_measure_one, args, timeout=60)
    fresh = run_cases(_open_fresh, args, timeout=60)
    expl = run_cases(_open_explicit, args, timeout=60)
    for m in meas + fresh + expl:
        if '_crash' in m or '_hang' in m:
            raise Machinery('environment measurement failed: %r' % (m,))
    names = meas[0]['names']
    for m in meas:
        if m['names'] != names:
            raise Machinery('initial registry differs between fresh processes')
    env = {'files': [m['fid'] for m in meas], 'reg0': names,
           'classof': meas[0]['classof'],
           'accept': {m['fid']: m['accept'] for m in meas},
           'ext': {m['fid']: m['ext'] for m in meas},
           'digest0': {m['fid']: m['digest0'] for m in fresh},
           'cls0': {m['fid']: m['cls0'] for m in fresh},
           'explicit': {m['fid']: m['explicit'] for m in expl},
           'raises': {m['fid']: m['raises'] for m in meas},
           'aliasing': False, 'emit': False, 'maxhist': 3}
    # the reader some histories register later: same acceptance as its parent
    LATE, PARENT = 'verif_late.late_uamiv', 'camxfiles.uamiv.Memmap.uamiv'
    env['classof'] = dict(env['classof'], late_uamiv=LATE)
    for fid in env['accept']:
        if PARENT in env['accept'][fid]:
            env['accept'][fid] = env['accept'][fid] + [LATE]
    return pool, env


def run(tier):
    out = Outcome(PROP, tier)
    rnd = random.Random(seed())
    tmp = scratch('c15')
    try:
        pool, env = build_env(tmp)
        paths = {fid: p for fid, (p, fmt) in pool.items()}
        envp = os.path.join(tmp, 'env.json')
        files = env['files']

        def write_env(**kw):
            e = dict(env)
            e.update(kw)
            with open(envp, 'w') as f:
                json.dump(e, f)

        # 1. design-level model checking ------------------------------------
        depth = 3 if tier == 'quick' else 4
        write_env(maxhist=depth, emit=True)
        r = need_ok(run_tlc('Registry_MC', workers=1, timeout=1200,
                            env={'PNC_ENV': envp}), 'Registry_MC')
        out.add_tlc('Registry_MC depth %d (emission)' % depth, r,
                    'all open histories over %d files' % len(files))
        if r.violated:
            out.model_violation(r, 'Registry_MC')
        hists = [p['hist'] for p in r.prints if isinstance(p, dict)
                 and 'hist' in p]
        if len(hists) != len(files) ** depth:
            raise Machinery('emission incomplete: %d histories, expected %d'
                            % (len(hists), len(files) ** depth))
        # sharpness: with the aliasing deviation TLC must find the violation
        write_env(maxhist=3, emit=False, aliasing=True)
        r2 = need_ok(run_tlc('Registry_MC', workers=4, timeout=600,
                             env={'PNC_ENV': envp}), 'Registry_MC aliasing')
        out.add_tlc('Registry_MC with Aliasing=TRUE (sharpness)', r2,
                    'must violate: %s' % r2.violated)
        if not r2.violated:
            raise Machinery('Registry invariants are not sharp: the aliasing '
                            'deviation does not violate them in the model')
        write_env(maxhist=depth, emit=False)

        # 2. replay on the real library ---------------------------------------
        if tier == 'quick':
            # every history of length <= 2 then a seeded sample of length 3
            short = [h[:2] for h in hists]
            short = [list(x) for x in sorted(set(tuple(h) for h in short))]
            sample = rnd.sample(hists, min(len(hists), 380))
            todo = short + sample
            out.exhaustive = False
        else:
            todo = hists
            out.exhaustive = True
        # plus long random histories beyond the model-checking bound
        nlong = 60 if tier == 'quick' else 1500
        for i in range(nlong):
            todo.append([rnd.choice(files) for _ in range(rnd.randint(5, 9))])
        # histories that end in a multi-file open of two or three members
        # (members of different formats included)
        nmf = 60 if tier == 'quick' else 1500
        for i in range(nmf):
            todo.append({'h': [rnd.choice(files)
                               for _ in range(rnd.randint(0, 2))],
                         'mf': [rnd.choice(files)
                                for _ in range(rnd.randint(2, 3))]})
        # histories in which a reader is registered between opens
        nreg = 80 if tier == 'quick' else 1500
        pref = [f for f in files if 'uamiv' in f] or files
        for i in range(nreg):
            h = [rnd.choice(pref if rnd.random() < 0.6 else files)
                 for _ in range(rnd.randint(2, 5))]
            h.insert(rnd.randint(0, len(h) - 1), 'REG')
            todo.append(h)
        args = [(i + 1, h, paths) for i, h in enumerate(todo)]
        res = run_cases(_replay, args, timeout=120)
        traces = []
        for a, t in zip(args, res):
            if '_crash' in t or '_hang' in t:
                raise Machinery('replay of history %r failed: %r' % (a[1], t))
            traces.append(t)
        out.cov['evaluations'] = sum(len(t['steps']) for t in traces)
        out.cov['distinct_nontrivial'] = len(set(
            tuple(s['f'] for s in t['steps']) for t in traces
            if len(t['steps']) >= 2))
        out.cov['rule'] = ('a case is one open history; non-trivial = at '
                           'least two opens, distinct = different file '
                           'sequence')
        for t in traces[:2] + traces[-1:]:
            out.sample({'history': [s['f'] for s in t['steps']],
                        'selected': [s['cls'] for s in t['steps']],
                        'registry_lengths': [len(x) for x in t['regs']]})
        out.cov['environment'] = {
            'files': files, 'registry_entries': len(env['reg0']),
            'accepting_classes': env['accept'], 'fresh_selection': env['cls0']}
        # 3. trace validation ------------------------------------------------
        verdicts = validate_traces('Registry_Trace', traces, out,
                                   env={'PNC_ENV': envp}, shard=1500)
        settle(out, traces, verdicts, None)
        out.assumptions = [
            'acceptance matrix (isMine) measured in a fresh process is the '
            'environment; the specification decides precedence and history '
            'freedom',
            'each history starts from the import-time registry (forked from '
            'a parent that never opened a file)',
            'content equality is equality of a sha1 digest over dimension '
            'names/lengths, variable dimension tuples, masks and data bytes']
    finally:
        shutil.rmtree(tmp, ignore_errors=True)
    return out.finish()


if __name__ == '__main__':
    tier = 'quick'
    if '--tier' in sys.argv:
        tier = sys.argv[sys.argv.index('--tier') + 1]
    main_wrap(lambda: run(tier))
