"""C11: IOAPI metadata coherence / window referencing; see ioapi_driver.py and
spec/Ioapi.tla, spec/Ioapi_Trace.tla."""
import sys
from common import Outcome, main_wrap
import ioapi_driver


def run(tier):
    out = Outcome('C11', tier)
    ioapi_driver.run_ioapi(out, tier, 'C11')
    out.cov['rule'] = ('seeded random programs over IOAPI templates I1-I5 '
                       '(gridded, boundary, 24 h step, leap-day start, read '
                       'from disk); non-trivial = a call returned a file; '
                       'distinct = template + per-step (action, argument '
                       'class)')
    return out.finish()


if __name__ == '__main__':
    tier = sys.argv[sys.argv.index('--tier') + 1] if '--tier' in sys.argv else 'quick'
    main_wrap(lambda: run(tier))
