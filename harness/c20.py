"""C20: ARL packed-bit packing error is bounded and unpack inverts pack.

spec/ArlPack.tla transcribes the packing definition in exact integers;
ArlPack_MC checks NoWrap / FirstExact (and shows where the one-step bound
fails) on every small field over a lattice finer than the quantisation step
and emits the fields; pack2d/unpack are run on field * 2**s and validated by
ArlPack_Trace."""
import random
import sys

import numpy as np

from common import (unique, Outcome, Machinery, run_tlc, need_ok, run_cases,
                    validate_traces, settle, seed, main_wrap)

PROP = 'C20'


def run_field(cs):
    import warnings
    warnings.simplefilter('ignore')
    from PseudoNetCDF.noaafiles._arl import pack2d, unpack
    f = np.array(cs['f'], dtype='d')
    s = cs['s']
    sc = 2.0 ** s
    tr = dict(cs)
    arr = (f * sc).astype('f')
    cvar, prec, nexp, var1, ksum = pack2d(arr)
    b = np.asarray(cvar).view('uint8').reshape(arr.shape)
    tr['bytes'] = [[int(x) for x in row] for row in b]
    tr['nexp'] = int(nexp) - s
    exact = True

    def back(x):
        # twice the value, so that half units are integers
        nonlocal exact
        y = 2 * float(x) / sc
        if y != round(y) or abs(y) > 2e9:
            exact = False
            return 0
        return int(round(y))
    tr['var1x2'] = back(var1)
    tr['ksum'] = int(ksum)
    tr['prec_ok'] = bool(abs(float(prec) - 2.0 ** float(nexp) / 254.) <=
                         1e-6 * 2.0 ** float(nexp))
    u = unpack(np.asarray(cvar).view('uint8').reshape(arr.shape),
               np.array(var1), np.array(nexp))
    tr['unp2'] = [[back(x) for x in row] for row in np.asarray(u)]
    tr['exact'] = bool(exact)
    return tr


def run(tier):
    out = Outcome(PROP, tier)
    rnd = random.Random(seed() * 7919 + 20)
    r = need_ok(run_tlc('ArlPack_MC', workers=1, timeout=1200,
                        env={'PNC_EMIT': '1'}), 'ArlPack_MC')
    out.add_tlc('ArlPack_MC: NoWrap, FirstExact, offenders are cut-off bytes',
                r)
    if r.violated:
        out.model_violation(r, 'ArlPack_MC')
    # sharpness / witness of the known finding: the one-step bound is violated
    r2 = need_ok(run_tlc('ArlPack_MC', cfg='ArlPack_MC_bound.cfg', workers=4,
                         timeout=600, env={'PNC_EMIT': '0'}),
                 'ArlPack_MC bound')
    out.add_tlc('ArlPack_MC one-step bound (expected to be violated: known '
                'finding C20_K1)', r2, 'violated: %s' % r2.violated)
    out.cov['model_bound_violated'] = bool(r2.violated)
    fields = unique([p['f'] for p in r.prints
                     if isinstance(p, dict) and 'f' in p])
    if not fields:
        raise Machinery('ArlPack_MC emitted nothing')
    # random fields beyond the model: larger shapes, other exponents, constants
    extra = []
    for i in range(300 if tier == 'quick' else 5000):
        ny, nx = rnd.randint(1, 4), rnd.randint(2, 6)
        k = rnd.choice([7, 8, 9, 10, 12])
        top = 2 ** k
        kind = rnd.random()
        f = []
        v = rnd.randint(-50, 50)
        for j in range(ny):
            row = []
            for i2 in range(nx):
                if kind < 0.1:
                    pass          # constant field
                elif kind < 0.6:
                    v += rnd.choice([-1, 1]) * rnd.choice(
                        [0, 1, 2, 3, top // 2 - 1, top // 2, top // 2 + 1,
                         top - 3, top - 2, top - 1])
                else:
                    v += rnd.randint(-(top - 1), top - 1)
                row.append(v)
            f.append(row)
        # the integer model needs NEXP >= 7 (largest difference >= 64), or a
        # constant field
        flat = [x for row in f for x in row]
        dmax = max([abs(a - b) for row in f for a, b in zip(row[1:], row[:-1])]
                   + [abs(f[j][0] - f[j - 1][0]) for j in range(1, ny)] + [0])
        if dmax >= 64 or len(set(flat)) == 1:
            extra.append(f)
    todo = []
    for f in fields + extra:
        const = len(set(x for row in f for x in row)) == 1
        for s in ([0] if const else
                  [0, rnd.choice([-20, 20, -100, 60])] if tier == 'quick'
                  else [0, -20, 20, -100, 60]):
            todo.append({'f': f, 's': s})
    for i, c in enumerate(todo):
        c['tid'] = i + 1
    res = run_cases(run_field, todo, timeout=60, per_child=500, chunksize=50)
    traces = []
    for c, t in zip(todo, res):
        if '_crash' in t or '_hang' in t:
            raise Machinery('pack case failed: %r %r' % (c, t))
        traces.append(t)
    out.cov['evaluations'] = len(traces)
    out.cov['distinct_nontrivial'] = len(set(
        (json_key(t['f']), t['s']) for t in traces
        if len(set(x for row in t['f'] for x in row)) > 1))
    out.cov['rule'] = ('a case is one integer field x one binary scale; '
                       'non-trivial = not constant; distinct = different '
                       'field or scale')
    for t in traces[:2] + traces[-1:]:
        out.sample({k: t[k] for k in ('f', 's', 'bytes', 'nexp', 'unp2',
                                      'ksum')})
    verdicts = validate_traces('ArlPack_Trace', traces, out, shard=2500)
    settle(out, traces, verdicts, None)
    # second sentence of the property: packed-bit files
    import arlfile
    ares = arlfile.run_arl_files(out, tier)
    out.cov['evaluations'] += len(ares)
    out.cov['distinct_nontrivial'] += len(ares)
    out.assumptions = [
        'fields are integers times 2**s: float32 arithmetic in pack2d/unpack '
        'is exact, so bytes and reconstruction must equal the integer model',
        'the worst case over arbitrary float32 fields (rounding of LOG, '
        'accumulated error along long rows) is not decided',
        'files: grids of 300-323 cells (the library reads LENH bytes after '
        'the 158-byte fixed part of the index record, so that window must '
        'fit into the record), 1-2 surface and layer variables, 2 or 4 '
        'levels, 1-2 times; the library writer is not exercised (it raises '
        'for every input on this tree: DESIGN.md I.4)']
    return out.finish()


def json_key(f):
    return tuple(tuple(r) for r in f)


if __name__ == '__main__':
    tier = sys.argv[sys.argv.index('--tier') + 1] if '--tier' in sys.argv else 'quick'
    main_wrap(lambda: run(tier))
